"""C14 — LDM subscriptions notify exactly the matching data, at the requested cadence.

Theorems: lean/Props/C14.lean about lean/FlexModel/Ldm/Subs.lean (all callback behaviours: record / raise / re-enter).
Tie: (i) random and boundary histories of register/deregister consumer, subscribe (with callbacks that record, raise, or
re-enter IF.LDM.4 with an unsubscribe / a deregistration), unsubscribe, add (also short validity), update, delete,
maintenance, explicit and reactive attendance and clock advances through a real LDMFactory facility
(LDMServiceReactive; TimeService.time and time.monotonic virtual), line by line against the Lean model;
(ii) lean/Generated/LdmSubs.lean (harness/gen_ldm_subs.py): the checks of validate_subscribe_data_consumer in source
order with their result codes and the accepted ranges probed on the real validators - the model's refusal ladder is
DEFINED from them; (iii) the unsubscribe-vs-attendance race on two real threads under harness/dsched.py (`RaceRun`):
notify None / 0 / > 0, unsubscribe / deregistration, with and without an ordering phase, all one-pre-emption schedules
(every lock acquisition inside the database search of the attendance is a pre-emption point); the regions in which a late
callback is tolerated are those of Props.C14.race_regions (model FlexModel/Ldm/SubsRace.lean), whose guard positions are
read from the source (lean/Generated/LdmSections.lean: `attendSteps`, `notifySteps`).
Oracle: `RefSubs`, a reference subscription model written from the property text; at every attendance it computes,
from the REAL store content, which callbacks must fire and with which objects (C13's brute-force `spec_query`), in
snapshot order with the effect of every callback's action; the cadence is judged over the whole history (a notification
earlier than one interval after the previous one is a violation).
"""
from __future__ import annotations

import collections

from common import Infra, corpus
import ldm_common as L
import props.c13 as c13

MODULES = ["Props.C14"]
DRIVERS = ["Ldm"]
TRUSTED = [
    "callbacks record what they receive and then do nothing, raise, or re-enter IF.LDM.4 (unsubscribe / deregister); a "
    "callback that adds data or subscribes is out of scope; the store content used by the oracle at an attendance is read "
    "back from the real database after the operation (C12 covers the store itself)",
    "thread schedules: harness/dsched.py (CPython executes one bytecode atomically; Lock/RLock replaced by scheduler-aware "
    "equivalents); the race scenario is judged on its event order (search end, locked decision, removal returned, "
    "callback); its Lean model (SubsRace.lean) is tied to the source by the regenerated statement lists only",
] + c13.TRUSTED[:1]
ASSUMPTIONS = [
    "attendance happens when attend_subscriptions is called explicitly and, reactively, inside add_provider_data of a "
    "registered provider when >= 0.5 s (monotonic) passed since the last reactive attendance (LDMServiceReactive); the "
    "periodic service thread (LDMServiceThreads) calls the same attend_subscriptions every 0.5 s and is not run here",
    "the LDM clock has one-second resolution: `now` = whole UTC seconds; a subscription's interval starts at the "
    "subscription and restarts at every notification",
    "several invalid fields in one subscription request: any of the matching refusal codes is accepted by the oracle "
    "(the model and Props.C14.validation_codes pin the code's ladder order, regenerated from the source)",
    "orders in subscriptions are tuples (a list makes SubscribeDataobjectsReq unhashable: TypeError at subscribe, not "
    "exercised); a subscription whose order attribute is missing / of mixed type in the selection (C13-KF2) is skipped by "
    "the repaired attendance - the oracle accepts no notification or a notification of the right objects in any order",
    "known finding C14-KF1: the subscription id is hash(request), so equal requests share one id and unsubscribing one "
    "removes all of them (pinned by tests/.../test_ldm_service.py::test_delete_subscription)",
    "known finding C14-KF2 (threads only): a removal racing an in-flight attendance can be followed by one more callback "
    "when the notification had been decided (locked decision section of process_notifications) before the removal returned",
    "finding C14-KF3 (threads only, code as is; fixes/C14-decision-tests-membership.diff): with notify_time None/0 also "
    "when the removal returned after the search/ordering phase of the attendance had ended and before the decision section "
    "(between the membership section of attend_subscription and process_notifications); a removal that returns while the "
    "attendance is still searching / ordering, or any notify_time > 0 with the decision after the removal, is a violation",
    "race model (Props.C14 section Race, FlexModel/Ldm/SubsRace.lean): one attendance of one due subscription against one "
    "removal; unsubscribe's read-only copy section and the other subscriptions of the pass are not modelled",
]

CFG = c13.CFG
FAR = c13.FAR
MAX_NOTIFY = 4398046511103


class RefSubs:
    """reference subscription model (property text)"""

    def __init__(self):
        self.consumers, self.providers = set(), set()
        self.subs = collections.OrderedDict()       # cb -> dict(req fields, last, issued index)
        self.issued = []                            # cb of every successful subscribe, in order
        self.utc, self.mono = L.UTC0_MS, L.MONO0_MS
        self.last_attend = L.MONO0_MS
        self.dead_twins = {}                        # cb -> reason, for C14-KF1 classification
        self.exp_app = {}

    def now(self):
        return L.now_its(self.utc)

    def refusal_causes(self, op):
        _, cb, app, types, prio, flt, notify, mult, order = op[:9]
        causes = set()
        if app not in self.consumers:
            causes.add(1)
        if any(t not in c13_types() for t in types):
            causes.add(2)
        if prio is not None and not 0 <= prio <= 255:
            causes.add(3)
        if flt == "!":
            causes.add(4)
        if notify is not None and not 0 <= notify <= MAX_NOTIFY:
            causes.add(5)
        if mult is not None and not 0 <= mult <= 255:
            causes.add(6)
        if order == "!":
            causes.add(7)
        return causes

    def attendance(self, stored, got=None):
        """expected callbacks at an attendance over `stored`, walking the subscriptions in storage order (the snapshot):
        ({cb: [record tokens]}, {cb: sorted record tokens of a subscription whose ORDER is undefined - C13-KF2: the
        repaired attendance skips it, a notification in any order is tolerated}).  The action of every expected
        callback (unsubscribe / deregister, see ldm_common.act_token) takes effect before the next subscription.
        `got`: the callbacks really invoked.  A subscription that the code removed together with its equal request
        (C14-KF1, `dead_twins`) and that was indeed NOT invoked stays expected (step reports it under C14-KF1), but its
        callback never ran, so its re-entrant action did not happen: it must not be applied to the reference state."""
        expected, optional = {}, {}
        now = self.now()
        for cb, s in list(self.subs.items()):
            if cb not in self.subs:
                continue                            # removed by the action of an earlier callback of this attendance
            if s["app"] not in self.consumers:
                self.subs.pop(cb, None)                   # deregistered: never notified again
                continue
            need = max(1, s["mult"] or 0)
            due = now >= s["last"] + (s["notify"] or 0)
            kind, objs = c13.spec_query(stored, set(s["types"]), s["flt"], s["order"])
            if kind != "ok":
                _, objs = c13.spec_query(stored, set(s["types"]), s["flt"], None)
                if len(objs) >= need and due:
                    optional[cb] = sorted(L.ser_record(d) for d in objs)
                continue
            if len(objs) >= need and due:
                expected[cb] = [L.ser_record(d) for d in objs]
                self.exp_app[cb] = s["app"]
                s["last"] = now
                if got is not None and cb in self.dead_twins and cb not in got:
                    self.subs.pop(cb, None)         # gone in the code since its twin's unsubscribe (C14-KF1): no callback,
                    continue                        # no action; reported once by step
                self.run_action(s.get("act"))
        return expected, optional

    def run_action(self, act):
        if act is None or act == "x":
            return
        if act[0] == "d":
            self.consumers.discard(act[1])
            for cb in [cb for cb, s in self.subs.items() if s["app"] == act[1]]:
                self.subs.pop(cb, None)
        elif act[0] == "u":
            app, j = act[1], act[2]
            if app not in self.consumers or j is None or j >= len(self.issued):
                return
            cb, key = self.issued[j], self.key_of_issued(j)
            if cb in self.subs:
                self.subs.pop(cb, None)
            for c in [c for c, s in self.subs.items() if s["key"] == key]:
                self.dead_twins[c] = cb             # equal request, same hash id: the code removes it as well (C14-KF1)

    def step(self, op, line, stored):
        bad = []
        n = op[0]
        head, _, calls = L.split_line(line)
        got = {}
        for cb, app, recs in calls:
            if cb in got:
                bad.append((f"callback {cb} invoked twice in one attendance", None))
            got[cb] = (app, recs)
        expected = {}
        attended = False
        if head and head[0] == "x":
            bad.append((f"{n}: exception {head[1]} escaped to the caller", None))
        if n == "regc":
            if head == ["c", "0"]:
                self.consumers.add(op[1])
        elif n == "deregc":
            self.consumers.discard(op[1])
            for cb in [cb for cb, s in self.subs.items() if s["app"] == op[1]]:
                self.subs.pop(cb, None)
        elif n == "regp":
            if head == ["c", "0"]:
                self.providers.add(op[1])
        elif n == "deregp":
            self.providers.discard(op[1])
        elif n == "adv":
            self.utc += op[1]
            self.mono += op[1]
        elif n == "sub":
            _, cb, app, types, prio, flt, notify, mult, order = op[:9]
            causes = self.refusal_causes(op)
            if causes:
                if head[0] != "c" or len(head) != 2 or int(head[1]) not in causes:
                    bad.append((f"invalid subscription (causes {sorted(causes)}) answered {head}", None))
                    if head[:2] == ["c", "0"]:
                        self._store(op)
            elif head[:2] != ["c", "0"]:
                bad.append((f"valid subscription of registered consumer {app} refused: {head}", None))
            else:
                self._store(op)
        elif n == "unsub":
            _, app, j = op
            ok = head == ["c", "0"]
            cb = self.issued[j] if (j is not None and j < len(self.issued)) else None
            alive = cb in self.subs
            if app not in self.consumers:
                if ok:
                    bad.append((f"unsubscribe by unregistered consumer {app} accepted", None))
            elif alive:
                if not ok:
                    if cb in self.dead_twins:
                        bad.append((f"unsubscribe of subscription {cb} refused: it was removed together with the equal "
                                    f"request of subscription {self.dead_twins[cb]}", "C14-KF1"))
                    else:
                        bad.append((f"unsubscribe of live subscription {cb} refused", None))
                self.subs.pop(cb, None)
            elif ok:
                # the id no longer denotes a live subscription, yet something was removed
                twins = [c for c, s in self.subs.items() if cb is not None and s["key"] == self.key_of_issued(j)]
                fid = "C14-KF1" if twins else None
                bad.append((f"unsubscribe with the id of subscription {cb} (not active) accepted; removes {twins}", fid))
                for c in twins:
                    self.subs.pop(c, None)
            if ok and alive:
                for c in [c for c, s in self.subs.items() if s["key"] == self.key_of_issued(j)]:
                    self.dead_twins[c] = cb         # equal request, same hash id: the code removes it as well
        elif n == "attend":
            attended = True
        elif n == "add":
            if op[1] in self.providers and head and head[0] in ("c", "x") and (head[0] == "x" or int(head[1]) >= 0):
                if self.mono - self.last_attend >= 500:
                    attended = True
                    if head[0] != "x":
                        self.last_attend = self.mono
        optional = {}
        if attended:
            expected, optional = self.attendance(stored, got)
        for cb, recs in expected.items():
            if cb not in got:
                if cb in self.dead_twins:
                    bad.append((f"subscription {cb} no longer notified after an equal request (subscription "
                                f"{self.dead_twins[cb]}) was unsubscribed", "C14-KF1"))
                    self.subs.pop(cb, None)
                else:
                    bad.append((f"{n}: subscription {cb} not notified although {len(recs)} objects match and its interval elapsed", None))
            elif got[cb][1] != recs:
                what = "in the wrong order" if sorted(got[cb][1]) == sorted(recs) else "with other objects"
                bad.append((f"{n}: subscription {cb} notified {what}: got {len(got[cb][1])}, specification {len(recs)}", None))
            elif got[cb][0] != self.exp_app.get(cb):
                bad.append((f"{n}: notification of {cb} carries application id {got[cb][0]}", None))
        for cb in got:
            if cb in optional and cb not in expected and sorted(got[cb][1]) == optional[cb]:
                if cb in self.subs:
                    self.subs[cb]["last"] = self.now()      # order undefined (C13-KF2): notified in some order
                continue
            if cb not in expected:
                why = ("unsubscribed / consumer deregistered" if cb not in self.subs else
                       "fewer matches than multiplicity, interval not elapsed, or no attendance due")
                bad.append((f"{n}: callback {cb} invoked although {why}", None))
        return bad

    def key_of_issued(self, j):
        return self._keys[j] if j is not None and j < len(self.issued) else None

    _keys = None

    def _store(self, op):
        _, cb, app, types, prio, flt, notify, mult, order = op[:9]
        act = op[9] if len(op) > 9 else None
        if self._keys is None:
            self._keys = []
        key = repr((app, types, prio, flt, notify, mult, order))
        self._keys.append(key)
        self.issued.append(cb)
        self.subs[cb] = dict(app=app, types=types, flt=flt, notify=notify, mult=mult, order=order, last=self.now(), key=key,
                             act=act)


_T = {}


def c13_types():
    if not _T:
        import props.c12 as c12
        _T.update(c12.TYPE_TABLE())
    return _T


# ------------------------------------------------------------------------------------ running

def run_real(hist):
    lines, stores = [], []
    with L.RealLdm(hist["cfg"]) as r:
        for op in hist["ops"]:
            lines.append(r.apply(op))
            stores.append(r.stored() if op[0] in ("add", "attend") else None)
    return lines, stores


def judge(hist, lines, stores):
    ref = RefSubs()
    out = []
    for k, (op, line, st) in enumerate(zip(hist["ops"], lines, stores)):
        for what, fid in ref.step(op, line, st):
            out.append((k, what, fid))
    return out


def detect_variants():
    import props.c12 as c12
    v = c12.detect_variants()
    now = L.now_its(L.UTC0_MS)
    obj = L.ser({"cam": {"generationDeltaTime": 1}})
    ops = [["regp", 2, [2]], ["regc", 2, [2]], ["add", 2, now, FAR, 10 ** 6, obj],
           ["sub", 0, 2, [2], None, None, 0, 1, None], ["sub", 1, 2, [2], None, None, 0, 1, None],
           ["unsub", 2, 0], ["attend"]]
    lines, _ = run_real({"cfg": CFG, "ops": ops})
    v["uniqueIds"] = int("@1:" in lines[-1])
    return v


def check_history(ctx, hist, tag, model_lines=None):
    lines, stores = run_real(hist)
    ctx.evals(len(lines))
    for k, what, fid in judge(hist, lines, stores):
        ctx.violation(f"{tag}: op {k} {hist['ops'][k][0]}: {what}",
                      {"kind": "history", "cfg": hist["cfg"], "ops": hist["ops"][:k + 1]}, fid)
    if model_lines is not None:
        for k, (a, b) in enumerate(zip(lines, model_lines)):
            if a != b:
                ctx.mismatch("ldm.subscriptions", {"cfg": hist["cfg"], "ops": hist["ops"][:k + 1]}, a[:400], b[:400])
                break
    return lines


def model_outputs(ctx, hists, variants):
    """per history: the model's answer line per operation (own copy: c12's version interleaves its state lines)"""
    if not ctx.model_ok:
        return [None] * len(hists)
    lines, spans = [], []
    for h in hists:
        lines.append(L.init_line(h["cfg"], variants))
        spans.append((len(lines), len(h["ops"])))
        lines += [L.op_line(op) for op in h["ops"]]
    out = ctx.model("Ldm", lines)
    if any(o == "bad-op" for o in out):
        k = next(i for i, o in enumerate(out) if o == "bad-op")
        raise Infra(f"model driver rejected line: {lines[k][:200]}")
    return [out[a:a + n] for a, n in spans]


# ------------------------------------------------------------------------------------ generation

def msg(rng, t=None):
    t = t or rng.choice(["cam", "cam", "vam", "denm"])
    body = {"header": {"stationId": rng.choice([1, 2, 3, 7])},
            t: {"generationDeltaTime": rng.choice([0, 1, 5, 9, 100]), "speed": rng.choice([0, 10, 20])}}
    if rng.random() < 0.15:
        del body[t]["speed"]
    return body


def gen_sub_filter(rng):
    x = rng.random()
    if x < 0.4:
        return None
    if x < 0.43:
        return "!"
    def st():
        t = rng.choice(["cam", "cam", "vam", "denm"])
        attr = rng.choice(["header.stationId", f"{t}.generationDeltaTime", f"{t}.speed", f"{t}.nothing"])
        op = rng.choice(["eq", "ne", "gt", "lt", "ge", "le", "like", "notlike"])
        ref = rng.choice([0, 1, 2, 5, 7, 9, 10, 20, 100, "5", None])
        return [attr, op, L.ser(ref)]
    if x < 0.75:
        return [st()]
    return [st(), rng.choice("&|"), st()]


def gen_action(rng, app, n_issued, registered):
    """what the callback of a new subscription does when invoked (mostly nothing)"""
    x = rng.random()
    if x < 0.80:
        return None
    if x < 0.87:
        return "x"                                                          # raises after having recorded the data
    if x < 0.97:
        j = rng.randrange(0, n_issued + 2)                                  # an earlier / this / a later subscription
        return ["u", app if rng.random() < 0.85 else rng.choice([2, 16, 1, 5]), j]
    return ["d", rng.choice(sorted(registered)) if registered else app]


def gen_history(rng, n_ops):
    ops = [["regp", 2, [2]], ["regp", 16, [16]], ["regp", 1, [1]]]
    cons_pool = [2, 16, 1, 5, 35, 3, 4]
    registered = set()
    for a in rng.sample(cons_pool[:4], 2):
        ops.append(["regc", a, [a, 1]])
        registered.add(a)
    cb = 0
    issued = []          # (app) per successful-looking subscribe; bookkeeping only biases the choices
    utc = L.UTC0_MS
    next_id = 0
    reqs = []
    slow = rng.random() < 0.3            # a history that dwells on cadence: long intervals, attendances late by 1 s .. interval
    dynamic = rng.random() < 0.4         # the store changes under the subscriptions: updates, expiry, maintenance

    def rare(rng, normal, odd, p=0.06):
        return rng.choice(odd) if rng.random() < p else rng.choice(normal)
    while len(ops) < n_ops:
        x = rng.random()
        app = rng.choice(sorted(registered)) if (registered and rng.random() < 0.8) else rng.choice(cons_pool)
        if x < 0.05:
            perms = rng.choice([[app], [app, 1], [app, 1], []])
            ops.append(["regc", app, perms])
            if perms and 1 <= app <= 21:
                registered.add(app)
        elif x < 0.08:
            ops.append(["deregc", app])
            registered.discard(app)
        elif x < 0.30:
            if reqs and rng.random() < 0.15:
                r = list(rng.choice(reqs))                    # an equal request again (shared id, C14-KF1)
            else:
                types = rare(rng, [[2], [16], [2, 16], [1, 2, 16]], [[2, 99], [], [0]])
                prio = rare(rng, [None, None, 0, 255], [256, -1])
                if slow:
                    notify = rng.choice([2000, 3000, 3000, 4000, 5000, 10000])
                else:
                    notify = rare(rng, [None, 0, 0, 1, 500, 1000, 1000, 1500, 2000, 3000, 5000, MAX_NOTIFY], [-1, MAX_NOTIFY + 1])
                mult = rare(rng, [None, 0, 1, 1, 1, 2, 3, 255], [256, -1])
                d1, d2 = rng.choice("ad"), rng.choice("ad")
                order = rare(rng, [None, None, None, {"kind": "U", "keys": [["header.stationId", d1]]},
                                   {"kind": "U", "keys": [["header.stationId", d1], ["cam.generationDeltaTime", d2]]},
                                   {"kind": "U", "keys": [["header.stationId", d1], ["cam.generationDeltaTime", d2],
                                                          ["cam.speed", rng.choice("ad")]]}], ["!"])
                if isinstance(order, dict) and len(order["keys"]) >= 2 and types != [2] and rng.random() < 0.7:
                    order = {"kind": "U", "keys": order["keys"][:1]}      # keep C13-KF2 (missing order attribute) moderate
                r = [app, types, prio, gen_sub_filter(rng), notify, mult, order]
                reqs.append(r)
            act = gen_action(rng, r[0], len(issued), registered) if r[6] is None else None
            ops.append(["sub", cb] + r + ([act] if act is not None else []))
            cb += 1
            if r[0] in registered:
                issued.append(r[0])
        elif x < 0.36:
            j = rng.randrange(0, len(issued) + 1) if issued else None
            ops.append(["unsub", app, rng.choice([None, j, j, j])])
        elif x < 0.60:
            t = rng.choice(["cam", "cam", "vam", "denm"])
            a = {"cam": 2, "vam": 16, "denm": 1}[t] if rng.random() < 0.9 else 5
            validity = rng.choice([1, 2, 3]) if (dynamic and rng.random() < 0.4) else 10 ** 6
            ops.append(["add", a, L.now_its(utc) + next_id, dict(FAR, minC=next_id % 3), validity, L.ser(msg(rng, t))])
            next_id += 1
        elif x < 0.64:
            ops.append(["del", 2, rng.randrange(0, next_id + 1)])
        elif dynamic and x < 0.68:
            t = rng.choice(["cam", "cam", "vam", "denm"])
            ops.append(["upd", {"cam": 2, "vam": 16, "denm": 1}[t], rng.randrange(0, next_id + 1), L.ser(msg(rng, t))])
        elif dynamic and x < 0.70:
            ops.append(["gc"])
        elif x < 0.80:
            ops.append(["attend"])
        else:
            ms = rng.choice([1000, 1000, 2000, 3000, 4000, 5000] if slow else
                            [125, 250, 375, 500, 500, 875, 1000, 1000, 1125, 2000, 5000])
            utc += ms
            ops.append(["adv", ms])
            if slow and rng.random() < 0.7:
                ops.append(["attend"])
    ops.append(["adv", 5000])
    ops.append(["attend"])
    return {"cfg": CFG, "ops": ops}


def boundary_histories():
    now = L.now_its(L.UTC0_MS)
    cam = lambda g, sid=1: L.ser({"header": {"stationId": sid}, "cam": {"generationDeltaTime": g}})
    vam = lambda g, sid=1: L.ser({"header": {"stationId": sid}, "vam": {"generationDeltaTime": g}})
    pre = [["regp", 2, [2]], ["regc", 2, [2, 1]], ["regc", 16, [16]]]
    add = lambda k, g=1, sid=1: ["add", 2, now + k, dict(FAR), 10 ** 6, cam(g, sid)]
    out = []
    # interval boundary at the one-second resolution: notify 1000/1500 ms, attendance after 875/1000/1125/1875/2000 ms
    for notify in (0, 1, 1000, 1500, 2000):
        for adv in (0, 875, 1000, 1125, 1875, 2000):
            out.append({"cfg": CFG, "ops": pre + [add(0), ["sub", 0, 2, [2], None, None, notify, 1, None], ["adv", adv],
                                                  ["attend"], ["attend"], ["adv", 1000], ["attend"]]})
    # cadence over a whole history: an attendance that comes `late` after the end of the interval, then attendances every
    # second: the next notification is due one full interval after the PREVIOUS NOTIFICATION, not earlier
    for notify in (2000, 3000, 5000):
        for late in range(1000, notify + 1000, 1000):
            ops = pre + [add(0), ["sub", 0, 2, [2], None, None, notify, 1, None], ["sub", 1, 2, [2], None, None, 1000, 1, None],
                         ["adv", notify + late], ["attend"]]
            for _ in range(2 * notify // 1000 + 1):
                ops += [["adv", 1000], ["attend"]]
            out.append({"cfg": CFG, "ops": ops})
    # data that appears late (no match until then), reactive attendance on the add
    out.append({"cfg": CFG, "ops": pre + [["sub", 0, 2, [2], None, None, 3000, 1, None], ["adv", 4000], ["attend"], ["adv", 1000],
                                          add(0), ["adv", 1000], add(1), ["adv", 1000], add(2), ["adv", 1000], add(3), ["adv", 1000],
                                          add(4)]})
    # multiplicity boundary
    for mult in (None, 0, 1, 2, 3):
        out.append({"cfg": CFG, "ops": pre + [["sub", 0, 2, [2], None, None, 0, mult, None], ["attend"], add(0), ["attend"],
                                              add(1), ["attend"], add(2), ["attend"]]})
    # reactive attendance trigger 375 / 500 ms
    for adv in (375, 500, 625):
        out.append({"cfg": CFG, "ops": pre + [["sub", 0, 2, [2], None, None, 0, 1, None], ["adv", adv], add(0), add(1),
                                              ["adv", 500], add(2)]})
    # after unsubscribe / deregistration (also: registering again does not revive the subscription)
    out.append({"cfg": CFG, "ops": pre + [add(0), ["sub", 0, 2, [2], None, None, 0, 1, None], ["sub", 1, 16, [2], None, None, 0, 1, None],
                                          ["attend"], ["unsub", 2, 0], ["attend"], ["deregc", 16], ["attend"], ["regc", 16, [16]],
                                          ["attend"], ["unsub", 2, 0], ["unsub", 35, 1]]})
    # validation ladder, one cause at a time
    for r in ([35, [2], None, None, 0, 1, None], [2, [99], None, None, 0, 1, None], [2, [2], 256, None, 0, 1, None],
              [2, [2], None, "!", 0, 1, None], [2, [2], None, None, -1, 1, None], [2, [2], None, None, 0, 256, None],
              [2, [2], None, None, 0, 1, "!"], [35, [99], 300, "!", -5, 999, "!"], [2, [2], -1, None, 0, 1, None],
              [2, [2], None, None, MAX_NOTIFY + 1, 1, None], [2, [2], 255, None, MAX_NOTIFY, 255, None], [2, [2], 0, None, 0, -1, None]):
        out.append({"cfg": CFG, "ops": pre + [["sub", 0] + r, add(0), ["attend"]]})
    # ordered notification, two overlapping subscriptions; mixed directions with ties on the first key
    o = {"kind": "U", "keys": [["header.stationId", "a"], ["cam.generationDeltaTime", "d"]]}
    out.append({"cfg": CFG, "ops": pre + [add(0, 5, 2), add(1, 5, 1), add(2, 9, 1), ["sub", 0, 2, [2], None, None, 0, 1, o],
                                          ["sub", 1, 16, [2], None, [["cam.generationDeltaTime", "ge", L.ser(9)]], 0, 1, None],
                                          ["attend"]]})
    for d1 in "ad":
        for d2 in "ad":
            o = {"kind": "U", "keys": [["header.stationId", d1], ["cam.generationDeltaTime", d2]]}
            out.append({"cfg": CFG, "ops": pre + [add(0, 20, 3), add(1, 40, 3), add(2, 10, 5), add(3, 30, 5), add(4, 5, 7),
                                                  ["sub", 0, 2, [2], None, None, 0, 1, o], ["attend"]]})
    # callbacks that re-enter IF.LDM.4 or raise (see ldm_common.act_token): the callback of subscription 0 unsubscribes
    # subscription 1 / itself / deregisters the consumer; for every notification interval class
    for notify in (None, 0, 1000):
        for act in (["u", 2, 1], ["u", 2, 0], ["d", 2], ["d", 16], "x", ["u", 16, 2]):
            out.append({"cfg": CFG, "ops": pre + [add(0), ["sub", 0, 2, [2], None, None, notify, 1, None, act],
                                                  ["sub", 1, 2, [2], 1, None, notify, 1, None],
                                                  ["sub", 2, 16, [2], None, None, notify, 1, None], ["adv", 2000], ["attend"],
                                                  ["adv", 2000], ["attend"], ["adv", 1000], add(1)]})
    # one subscription whose order cannot be evaluated (attribute missing in a selected object, C13-KF2) among others, and
    # the subscription of a consumer that deregisters: the others are notified, the dead one is dropped
    o = {"kind": "U", "keys": [["cam.generationDeltaTime", "a"]]}
    out.append({"cfg": CFG, "ops": [["regp", 2, [2]], ["regp", 16, [16]], ["regc", 2, [2, 1]], ["regc", 16, [16]], add(0),
                                    ["add", 16, now + 1, dict(FAR), 10 ** 6, vam(1)],
                                    ["sub", 0, 2, [2, 16], None, None, 0, 1, o], ["sub", 1, 16, [2], None, None, 0, 1, None],
                                    ["sub", 2, 2, [16], None, None, 1000, 1, None], ["attend"], ["adv", 1000], ["attend"],
                                    ["deregc", 16], ["adv", 1000], add(2), ["attend"], ["regc", 16, [16]], ["attend"]]})
    return out


# ------------------------------------------------------------------------------------ unsubscribe racing an attendance

RACE_T0 = 1_700_000_000_000


class _NoThread:
    """threading.Thread stand-in inside ldm_*_thread(s): background loops are not started"""

    def __init__(self, *a, **k):
        self.daemon = True

    def start(self):
        pass

    def join(self, *a):
        pass


class _RaceTime:
    def monotonic(self):
        return 1000.0

    def time(self):
        return RACE_T0 / 1000.0

    def sleep(self, d):
        pass


_RACE = {}


def race_env():
    """modules whose Lock/RLock are replaced, files traced line-wise, code objects traced opcode-wise (the methods that the
    lock map of harness/gen_locks.py knows: every method with a lock section or a shared-state access)"""
    if not _RACE:
        import gen_locks
        import flexstack.facilities.local_dynamic_map.dictionary_database as db_mod
        import flexstack.facilities.local_dynamic_map.ldm_service as svc_mod
        import flexstack.facilities.local_dynamic_map.ldm_maintenance as mnt_mod
        import flexstack.facilities.local_dynamic_map.if_ldm_3 as if3_mod
        import flexstack.facilities.local_dynamic_map.if_ldm_4 as if4_mod
        mods = [db_mod, svc_mod, mnt_mod, if3_mod, if4_mod]
        info = gen_locks.analyse()
        names = set(info["blocks"].keys()) | {r[0] for r in info["records"]} | set(info["calls"].keys())
        codes = []
        for mod in mods:
            for cname, cls in vars(mod).items():
                if isinstance(cls, type) and cls.__module__ == mod.__name__:
                    for n, f in vars(cls).items():
                        if f"{cname}_{n}" in names and hasattr(f, "__code__"):
                            codes.append(f.__code__)
        _RACE.update(db=db_mod, svc=svc_mod, mnt=mnt_mod, if3=if3_mod, if4=if4_mod, files=[m.__file__ for m in mods],
                     patch=[db_mod, svc_mod], codes=codes)
    return _RACE


class _LogDict(dict):
    """the last-checked table of the service, logging every store: the LOCKED decision section of process_notifications
    ends with `last_checked_subscriptions_time[subscription] = now` (event "dec"), right before the lock is released and
    the callback invoked"""

    def __init__(self, src, log):
        super().__init__(src)
        self._log = log

    def __setitem__(self, k, v):
        self._log(k)
        super().__setitem__(k, v)


class RaceRun:
    """Two REAL threads on a real LDMService (in-memory back-end) under harness/dsched.py: T0 runs one attendance pass,
    T1 unsubscribes subscription A (or deregisters its consumer) and notes when the call has returned.  A and B are due.
    Scenario: notify (None / 0 / ms), remove ("unsub" / "dereg"), order (bool: the subscriptions order their result, so
    the attendance has an ordering phase after the search), flt (bool: a filter, so the search evaluates statements).
    Events (total order): ("srch", cb) the database search of cb's attendance starts, ("found", cb) it has returned,
    ("ord", cb) the ordering of cb's result has returned, ("pn", cb) process_notifications entered for cb, ("dec", cb)
    the locked decision section stored cb's notification time, ("cb", cb) callback invoked, ("gone", ok) the
    unsubscribe / deregistration of A has returned."""

    def __init__(self, sc, policy):
        import dsched
        import realstack as rs
        from flexstack.facilities.local_dynamic_map import ldm_classes as K
        env = race_env()
        self.sc = sc
        clock = rs.VClock(RACE_T0)
        with clock:
            with dsched.patched(env["patch"], extra={"Thread": _NoThread}):
                area = K.Location.initializer(latitude=415000000, longitude=21000000)
                db = env["db"].DictionaryDataBase()
                svc = env["svc"].LDMService(env["mnt"].LDMMaintenance(area, db))
                i3, i4 = env["if3"].InterfaceLDM3(svc), env["if4"].InterfaceLDM4(svc)
                sched = dsched.DSched(policy, line_files=env["files"], opcode_codes=env["codes"], max_steps=60000)
                self.s = sched
                i3.register_data_provider(K.RegisterDataProviderReq(2, (K.AccessPermission(2),), K.TimeValidity(1000)))
                for app in (2, 16):
                    i4.register_data_consumer(K.RegisterDataConsumerReq(app, (K.AccessPermission(app),), None))
                now = K.TimestampIts.initialize_with_utc_timestamp_seconds(RACE_T0 // 1000).timestamp_its
                for g in ((1,) if not sc.get("order") else (3, 1, 2)):
                    i3.add_provider_data(K.AddDataProviderReq(2, K.TimestampIts(now + g), L.real_location(dict(FAR)),
                                                              {"cam": {"generationDeltaTime": g}}, K.TimeValidity(10 ** 6)))
                nt = None if sc["notify"] is None else K.TimestampIts(sc["notify"])
                order = ((K.OrderTupleValue("cam.generationDeltaTime", K.OrderingDirection.ASCENDING),)
                         if sc.get("order") else None)
                flt = (K.Filter(K.FilterStatement("cam.generationDeltaTime", K.ComparisonOperators.GREATER_THAN_OR_EQUAL, 1))
                       if sc.get("flt") else None)
                ids = {}
                for cb, app in (("A", 2), ("B", 16)):
                    r = i4.subscribe_data_consumer(K.SubscribeDataobjectsReq(
                        application_id=app, data_object_type=(2,), priority=None, filter=flt, notify_time=nt,
                        multiplicity=1, order=order), (lambda resp, cb=cb: sched.log("cb", cb)))
                    ids[cb] = r.subscription_id
                if len(svc.subscriptions) != 2:
                    raise Infra("race scenario: the two subscriptions were not stored")
                clock.advance((sc["notify"] or 0) + 1000)           # both subscriptions are due
                names = {hash(si.subscription_request): ("A" if si.subscription_request.application_id == 2 else "B")
                         for si in svc.subscriptions}
                name_of = lambda si: names.get(hash(si.subscription_request), "?")
                orig_pn, orig_sd, orig_ord = svc.process_notifications, svc.search_data, svc.order_search_results
                cur = {}

                def pn(subscription, result):
                    sched.log("pn", name_of(subscription))
                    return orig_pn(subscription, result)

                def sd(subscription):
                    cur["attend"] = name_of(subscription)
                    sched.log("srch", cur["attend"])
                    r = orig_sd(subscription)
                    sched.log("found", cur["attend"])
                    return r

                def osr(search_result, order_):
                    r = orig_ord(search_result, order_)
                    sched.log("ord", cur.get("attend", "?"))
                    return r
                svc.process_notifications, svc.search_data, svc.order_search_results = pn, sd, osr
                svc.last_checked_subscriptions_time = _LogDict(svc.last_checked_subscriptions_time,
                                                               lambda si: sched.log("dec", name_of(si)))

                def t_attend():
                    svc.attend_subscriptions()

                def t_remove():
                    if sc["remove"] == "unsub":
                        r = i4.unsubscribe_data_consumer(K.UnsubscribeDataConsumerReq(2, ids["A"]))
                        sched.log("gone", int(r.result) == 0)
                    else:
                        r = i4.deregister_data_consumer(K.DeregisterDataConsumerReq(2))
                        sched.log("gone", int(r.ack) == 0)
                sched.spawn(t_attend, name="attend")
                sched.spawn(t_remove, name="remove")
                with rs.quiet():
                    sched.run(timeout=30.0)
                self.left = len(svc.subscriptions)
        self.steps = sched.steps
        self.choices = [c[0] for c in sched.steps]
        self.events = list(sched.events)

    def judge(self):
        """[(what, finding id)]: callback of A after its removal had returned ACCEPTED.
        Known finding C14-KF2: the locked decision section for that callback ("dec") had been executed BEFORE the removal
        returned - the callback is invoked outside the service lock and cannot be stopped any more.
        Finding C14-KF3 (code as is; repaired by fixes/C14-decision-tests-membership.diff): notify_time None / 0, the
        search / ordering phase of A's attendance had ENDED before the removal returned, the decision came after it: the
        removal fell into the gap between the membership test of attend_subscription and the decision section.
        Anything else is a violation: in particular a removal that returned while the attendance was still searching or
        ordering (its membership test still ahead), and any notify_time > 0 with the decision after the removal."""
        s = self.s
        if s.abort_reason == "deadlock":
            return [(f"deadlock: {s.deadlock}", None)]
        if s.abort_reason:
            raise Infra(f"scheduler aborted: {s.abort_reason}")
        bad = [(f"{t.name} raised {type(t.exc).__name__}: {t.exc}", None) for t in s.threads if t.exc is not None]
        ev = self.events
        gone = next((i for i, e in enumerate(ev) if e[0] == "gone" and e[1]), None)
        if any(e[0] == "gone" and not e[1] for e in ev):
            bad.append(("removal of a live subscription / registered consumer refused", None))
        if [e for e in ev if e == ("cb", "B")] != [("cb", "B")]:
            bad.append((f"subscription B (other consumer, due) was notified {sum(1 for e in ev if e == ('cb', 'B'))} times", None))
        last = lambda kinds, i: max((j for j, x in enumerate(ev[:i]) if x[0] in kinds and x[1] == "A"), default=-1)
        for i, e in enumerate(ev):
            if e == ("cb", "A") and gone is not None and i > gone:
                dec, ready, srch = last(("dec",), i), last(("found", "ord"), i), last(("srch",), i)
                nt = self.sc["notify"]
                if 0 <= dec < gone:
                    bad.append(("callback of A invoked after its removal returned (its notification had been decided, under "
                                "the service lock, before the removal returned)", "C14-KF2"))
                elif not nt and 0 <= ready < gone:
                    bad.append((f"callback of A invoked after its removal returned: notify_time {nt}, the removal returned "
                                f"between the end of the search phase and the decision section (membership test passed, "
                                f"lock released, removal, decision)", "C14-KF3" if gap_variant() else None))
                elif ready < 0 or ready > gone:
                    found = last(("found",), i)
                    phase = ("before its data base search" if srch > gone else
                             "searching the data base" if (found < 0 or found > gone) else "ordering its result")
                    bad.append((f"callback of A invoked although {self.sc['remove']} had returned ACCEPTED while the attendance "
                                f"was {phase} for A (notify_time {nt}): the removed subscription was notified", None))
                else:
                    bad.append((f"callback of A invoked although the attendance took up its notification AFTER "
                                f"{self.sc['remove']} had returned ACCEPTED (notify_time {nt} ms)", None))
        return bad        # a stale last-checked record without a callback is not judged (no clause of the property)


_GAP = {}


def gap_variant():
    """does the code as it is leave the gap of finding C14-KF3?  Sequential probe (no threads): the removal is made to
    happen exactly between attend_subscription's membership test and process_notifications, by wrapping the latter."""
    if "open" not in _GAP:
        import realstack as rs
        from flexstack.facilities.local_dynamic_map import ldm_classes as K
        env = race_env()
        calls = []
        with rs.VClock(RACE_T0) as clock:
            area = K.Location.initializer(latitude=415000000, longitude=21000000)
            svc = env["svc"].LDMService(env["mnt"].LDMMaintenance(area, env["db"].DictionaryDataBase()))
            i3, i4 = env["if3"].InterfaceLDM3(svc), env["if4"].InterfaceLDM4(svc)
            i3.register_data_provider(K.RegisterDataProviderReq(2, (K.AccessPermission(2),), K.TimeValidity(1000)))
            i4.register_data_consumer(K.RegisterDataConsumerReq(2, (K.AccessPermission(2),), None))
            now = K.TimestampIts.initialize_with_utc_timestamp_seconds(RACE_T0 // 1000).timestamp_its
            i3.add_provider_data(K.AddDataProviderReq(2, K.TimestampIts(now), L.real_location(dict(FAR)),
                                                      {"cam": {"generationDeltaTime": 1}}, K.TimeValidity(10 ** 6)))
            r = i4.subscribe_data_consumer(K.SubscribeDataobjectsReq(
                application_id=2, data_object_type=(2,), priority=None, filter=None, notify_time=K.TimestampIts(0),
                multiplicity=1, order=None), lambda resp: calls.append(1))
            clock.advance(1000)
            orig = svc.process_notifications

            def pn(subscription, result):
                i4.unsubscribe_data_consumer(K.UnsubscribeDataConsumerReq(2, r.subscription_id))
                return orig(subscription, result)
            svc.process_notifications = pn
            with rs.quiet():
                svc.attend_subscriptions()
        _GAP["open"] = bool(calls)
    return _GAP["open"]


RACE_SCENARIOS = [{"notify": 2000, "remove": "unsub"}, {"notify": 1000, "remove": "dereg"}, {"notify": 0, "remove": "unsub"},
                  {"notify": None, "remove": "unsub"}, {"notify": 0, "remove": "dereg"},
                  {"notify": 0, "remove": "unsub", "order": True}]


def race_explore(ctx, cap1, cap2, n_pct):
    """per scenario: ALL schedules with at most one pre-emption (one pre-emption suffices to put a whole removal between any
    two steps of the attendance - in particular at every lock acquisition INSIDE the database search of A's attendance),
    then a sample of the two-pre-emption schedules and some PCT runs"""
    import dsched
    for sc in RACE_SCENARIOS:
        tag = f"race_{sc['remove']}_{sc['notify']}" + ("_ordered" if sc.get("order") else "")

        def handle(run, sc=sc, tag=tag):
            ctx.evals()
            ctx.cover(tag)
            ctx.cover("race_preemptions_%d" % min(dsched.preemptions(run.steps), 3))
            ctx.nontrivial(("race", tag, tuple(run.events)))
            ev = run.events
            gone = next((i for i, e in enumerate(ev) if e[0] == "gone" and e[1]), None)
            if gone is not None:
                srch = next((i for i, e in enumerate(ev) if e == ("srch", "A")), None)
                ready = max((i for i, e in enumerate(ev) if e[0] in ("found", "ord") and e[1] == "A"), default=None)
                if srch is not None and ready is not None:
                    ctx.cover("race_removal_" + ("before_search" if gone < srch else "inside_search_phase" if gone < ready
                                                 else "after_search_phase"))
            for what, fid in run.judge():
                ctx.violation(f"race {sc['remove']}/notify={sc['notify']}: {what}",
                              {"kind": "race", "scenario": sc, "schedule": run.choices}, fid)
            return run

        def once(prefix, sc=sc):
            return handle(RaceRun(sc, dsched.Replay(prefix))).steps
        runs, exhausted = dsched.enumerate_schedules(once, 1, cap1, None)
        ctx.cover("race_runs", runs)
        if exhausted:
            ctx.cover("race_exhausted_bound_1")
        runs, exhausted = dsched.enumerate_schedules(once, 2, cap2, ctx.rng)
        ctx.cover("race_runs", runs)
        for i in range(n_pct):
            handle(RaceRun(sc, dsched.PCT(ctx.rng, depth=2 + i % 2, est_steps=400)))


def load_corpus():
    return [(n, c) for n, c in corpus("C14") if c.get("kind") == "history"]


def run(ctx):
    ctx.extra["rule"] = ("one evaluation = one interface operation on the real facility (callbacks record, and some raise or "
                         "re-enter IF.LDM.4); at every attendance the reference model decides, from the real store content, "
                         "which callbacks must fire with which objects; plus one evaluation per explored thread schedule of "
                         "the unsubscribe-vs-attendance race; distinct_nontrivial counts distinct (operation, outcome, number "
                         "of callbacks) triples and distinct race event sequences")
    variants = detect_variants()
    ctx.extra["variant"] = {"C14-KF1": "unique subscription ids" if variants["uniqueIds"] else "id = hash(request) (code as is)"}
    hists = [("corpus:" + n, {"cfg": c["cfg"], "ops": c["ops"]}) for n, c in load_corpus()]
    ctx.cover("corpus_cases", len(hists))
    hists += [(f"boundary:{i}", h) for i, h in enumerate(boundary_histories())]
    for i in range(ctx.scale(260, 9000)):
        n_ops = ctx.rng.choice([15, 30, 60, 120] if not ctx.thorough else [15, 30, 60, 120, 250, 400])
        hists.append((f"random:{i}", gen_history(ctx.rng, n_ops)))
    chunk = 400
    for a in range(0, len(hists), chunk):
        part = hists[a:a + chunk]
        outs = model_outputs(ctx, [h for _, h in part], variants)
        for (tag, h), mo in zip(part, outs):
            lines = check_history(ctx, h, tag, mo)
            for op, ln in zip(h["ops"], lines):
                hd = ln.split(" ")
                ncalls = ln.count(" @")
                outcome = hd[0] + (hd[1] if hd[0] in ("c", "x") and op[0] != "add" and len(hd) > 1 else "")
                ctx.cover(f"op_{op[0]}:{outcome}")
                if ncalls:
                    ctx.cover(f"callbacks_on_{op[0]}", ncalls)
                if op[0] == "sub" and len(op) > 9 and op[9] is not None:
                    ctx.cover("callback_action_" + (op[9] if op[9] == "x" else op[9][0]))
                ctx.nontrivial((op[0], outcome, min(ncalls, 5)))
    for n, c in corpus("C14"):
        if c.get("kind") == "race":
            import dsched
            r = RaceRun(c["scenario"], dsched.Replay(c.get("schedule", [])))
            ctx.evals()
            for what, fid in r.judge():
                ctx.violation(f"corpus:{n}: {what}", c, fid)
    ctx.extra["variant"]["C14-KF3"] = ("membership test only before process_notifications (code as is)" if gap_variant()
                                       else "membership test inside the decision section (repaired)")
    race_explore(ctx, ctx.scale(420, 3000), ctx.scale(25, 1500), ctx.scale(6, 300))
    if hists:
        h = hists[-1][1]
        ctx.sample("history", {"ops": [op if op[0] != "add" else op[:3] + ["..."] for op in h["ops"][:14]]})


def search(ctx):
    hists = boundary_histories()
    for i in range(ctx.scale(800, 27000)):
        hists.append(gen_history(ctx.rng, ctx.rng.choice([15, 30, 60, 120])))
    for i, h in enumerate(hists):
        check_history(ctx, h, f"search:{i}")
        if len(ctx.violations) >= 3:
            return
    race_explore(ctx, ctx.scale(1200, 9000), ctx.scale(400, 4500), ctx.scale(60, 900))


def replay(ctx, obj):
    case = obj.get("case", obj)
    if case.get("kind") == "race":
        import dsched
        r = RaceRun(case["scenario"], dsched.Replay(case.get("schedule", [])))
        bad = r.judge()
        print(f"  race {case['scenario']}: schedule of {len(case.get('schedule', []))} choices; events: {r.events}")
        for what, fid in bad:
            print(f"  VIOLATED: {what}" + (f"  [{fid}]" if fid else ""))
        return bool(bad)
    if case.get("kind") != "history":
        raise Infra(f"unknown replay kind {case.get('kind')}")
    hist = {"cfg": case["cfg"], "ops": case["ops"]}
    lines, stores = run_real(hist)
    bad = judge(hist, lines, stores)
    for op, ln in list(zip(hist["ops"], lines))[-6:]:
        print("  ", op[0], (op[1:3] if op[0] != "add" else op[1:2]), "->", ln[:100])
    for k, what, fid in bad:
        print(f"  VIOLATED at op {k}: {what}" + (f"  [{fid}]" if fid else ""))
    return bool(bad)

"""C12 — LDM behaves as a store of objects with registration gating and expiry.

Theorems: lean/Props/C12.lean about lean/FlexModel/Ldm/Store.lean (Impl) and lean/FlexModel/Ldm/Spec.lean (reference map
with the area rule, the gating and the reactive trigger as parameters; written independently of the Impl).
Tie: random and scripted histories of register/deregister/add/update/delete/request/maintain/advance through a real
LDMFactory-built facility (Dictionary back-end, Reactive maintenance and service, virtual clocks), line by line
against the Lean model; after EVERY operation additionally the `state` line (identifier counter of the real database,
both real registries, ids of the stored rows) and after maintenance passes / at the end the `dump` line (all rows).
Oracle: `Ref` below, a reference map written from the property text (independent of the code and of the Lean model):
it decides itself whether a registration has to be accepted, judges every response and, after every step, the
database content and both registries (frame).  Objects are generated inside, on the border of and outside the LDM's
own area of maintenance.
Round 5: the provider of a history may RE-USE Python objects (`AliasLdm`): the same AddDataProviderReq instance sent
again, the same data-object dict (or the same nested sub-dicts) inside distinct requests, an update carrying the dict
another identifier was added with.  For the value-semantic Lean model and for the reference map (which keeps
immutable serialised snapshots taken at the time of each operation) such a step is just an add / update with equal
content; on the real facility it decides whether two identifiers can come to share one mutable container.
"""
from __future__ import annotations

import collections

from common import Infra, corpus
import ldm_common as L

MODULES = ["Props.C12"]
DRIVERS = ["Ldm"]
TRUSTED = [
    "modelled rather than verified: float square root / int() in the area-of-maintenance distance (the model compares "
    "squared integer distances; every threshold is exercised at t*t-1, t*t); Python dict equality of stored records "
    "(`remove(data_object)`), modelled as structural equality",
    "harness/ldm_common.py: serialisation of Python objects to the line protocol, virtual clocks (TimeService.time, "
    "time.monotonic inside ldm_*_reactive) in steps of 125 ms so that float seconds are exact; the `state` line reads "
    "DictionaryDataBase._next_id / .database and LDMService.data_provider_its_aid / data_consumer_its_aid",
]
ASSUMPTIONS = [
    "Dictionary back-end, Reactive maintenance and service built by LDMFactory; single thread (C16 covers concurrency)",
    "maintenance runs explicitly (collect_trash) and reactively on add when >= 1 s (monotonic) passed since the last "
    "reactive collection (documented behaviour of LDMMaintenanceReactive); between expiry and the next maintenance run "
    "an object may or may not be returned",
    "data objects are dictionaries; an object's type is its first top-level key naming a data object type",
    "the LDM's own location / area of maintenance is fixed for a history: the property's histories contain no "
    "operation that moves it (LDMMaintenance.update_area_of_maintenance and Location.location_service_callback are "
    "neither modelled nor exercised)",
    "identity of Python objects: providers may re-use request objects / data-object dicts / nested sub-dicts across "
    "operations (exercised, judged); a caller MUTATING its own dict after an add, or a consumer mutating the dicts a "
    "request returned, is none of the property's operations and is neither exercised nor judged (the repository "
    "stores and returns data objects by reference)",
    "area of maintenance: the property text has no area exception, so for the code as it is every object 'must be "
    "kept' wherever it is located and what the area collection deletes today is reported under known finding C12-KF1 "
    "(only when the loss happens AT a maintenance pass and the object lies in the KF1 region); for a tree with the "
    "area test repaired, objects OUTSIDE the area (EN 302 895 5.3.2) may be discarded at a maintenance pass",
    "known finding C12-KF1: the area-of-maintenance collection deletes objects NEAR the LDM position (inverted test, "
    "`^` used as power) - pinned by tests/.../test_ldm_maintenance.py::test_check_and_delete_area_of_maintenance",
    "known finding C12-KF2: update/delete are accepted from applications that are not registered providers - pinned "
    "by tests/.../test_if_ldm_3.py (MagicMock service: any registration check fails the pinned SUCCEED expectations)",
    "registration rule of the oracle (EN 302 895 6.2.1 / 6.3.1 as far as the facility can decide it without the "
    "security entity): known ITS-AID (1..21), non-empty permission list covering the application's own type; DENM "
    "providers/consumers and SPATEM/MAPEM consumers are always permitted",
]

APPS = [1, 2, 16, 5, 14, 3, 0, 22, 35]
SMALL_AIDS = [1, 2, 3, 4, 5, 6, 14, 16]     # valid ITS-AIDs that object identifiers of a short history run through
TYPE_NAMES = {1: "denm", 2: "cam", 3: "poi", 4: "spatem", 5: "mapem", 6: "ivim", 14: "cpm", 16: "vam", 20: "payload"}
REL_LESS = {0: 50, 1: 100, 2: 200, 3: 500, 4: 1000, 5: 5000, 6: 10000}     # EN 302 895 / TS 102 894-2
REL_GREATER = {7: 20000}                                                     # RelevanceDistance thresholds (m)
MAX_ALT = 15
DENM, SPATEM, MAPEM = 1, 4, 5


# ------------------------------------------------------------------------------------ area of maintenance

def within(rel, cfg, loc):
    n = (loc["lat"] - cfg["lat"]) ** 2 + (loc["lon"] - cfg["lon"]) ** 2
    if rel in REL_LESS:
        return n < REL_LESS[rel] ** 2
    return n >= (REL_GREATER[rel] + 1) ** 2


def in_area(cfg, loc):
    """inside the LDM's area of maintenance as EN 302 895 5.3.2 means it"""
    return within(cfg["relDist"], cfg, loc) and (loc["alt"] - cfg["alt"]) ** 2 < MAX_ALT


def area_deletes_as_is(cfg, loc):
    """signature of C12-KF1: the region in which the code as it is deletes at a collection"""
    return within(cfg["relDist"], cfg, loc) and ((loc["alt"] - cfg["alt"]) ^ 2) < MAX_ALT


def area_deletes_repaired(cfg, loc):
    return not in_area(cfg, loc)


# ------------------------------------------------------------------------------------ reference model (oracle)

def obj_type(objser):
    """type of a data object = its first top-level key that names a data object type (ETSI message name)"""
    obj = L.deser(objser)
    names = {v: k for k, v in TYPE_TABLE().items()}
    for k in obj:
        if k in names:
            return names[k]
    return None


_TT = {}


def TYPE_TABLE():
    if not _TT:
        # ids and names of the data object types (EN 302 895 annex / TS 102 894-2); cross-checked against the repo
        _TT.update({1: "denm", 2: "cam", 3: "poi", 4: "spatem", 5: "mapem", 6: "ivim", 7: "ev-rsr",
                    8: "tistpgtransaction", 9: "srem", 10: "ssem", 11: "evcsn", 12: "saem", 13: "rtcmem", 14: "cpm",
                    15: "imzm", 16: "vam", 17: "dsm", 18: "pcim", 19: "pcvm", 20: "payload", 21: "pam"})
    return _TT


def registration_valid(app, perms, consumer):
    """must this registration be accepted?  Decided by the oracle, not read off the code's answer."""
    if app not in TYPE_TABLE() or len(perms) == 0:
        return False
    return app in perms or app == DENM or (consumer and app in (SPATEM, MAPEM))


class Ref:
    """Reference map `id -> object` with registrations, expiry and never-reused ids, from the property text."""

    def __init__(self, cfg, area_fixed=False):
        self.cfg = cfg
        self.area_fixed = area_fixed              # which variant of C12-KF1 the tree matches (run-time witness)
        self.objs = collections.OrderedDict()     # id -> dict(tok, expiry, type, loc, fields, area_may)
        self.ever = set()
        self.providers, self.consumers = set(), set()
        self.utc, self.mono = L.UTC0_MS, L.MONO0_MS
        self.last_gc_mono = L.MONO0_MS
        self.gone = {}                            # id -> reason ("deleted" / "collected" / "area-collected")
        self.at_maintenance = False               # did the operation being judged run a maintenance pass?

    def now(self):
        return L.now_its(self.utc)

    @staticmethod
    def rec_token(app, ts, loc, validity, objser):
        return "{" + f"{app} {ts} {L.loc_tokens(loc)} {validity} {objser}" + "}"

    def _maintain(self):
        self.at_maintenance = True
        now = self.now()
        for i in [i for i, o in self.objs.items() if o["expiry"] < now]:
            del self.objs[i]
            self.gone[i] = "collected"
        if self.area_fixed:
            for o in self.objs.values():
                if not in_area(self.cfg, o["loc"]):
                    o["area_may"] = True          # EN 302 895 5.3.2: outside the area of maintenance -> may be discarded

    def expected_sets(self, types=None):
        """(must, may) multisets of record tokens an observer has to / is allowed to see"""
        now = self.now()
        must, may = collections.Counter(), collections.Counter()
        for i, o in self.objs.items():
            if types is not None and o["type"] not in types:
                continue
            (may if (o["expiry"] < now or o["area_may"]) else must)[o["tok"]] += 1
        return must, may

    def step(self, op, line):
        """advance the reference by `op`, judging the real response `line`; returns [(what, finding_id)]"""
        bad = []
        n = op[0]
        head = line.split(" ")
        self.at_maintenance = False
        if head[0] == "x":
            bad.append((f"{n}: exception {head[1]} escaped the interface", None))
        if n in ("regp", "regc"):
            reg = self.providers if n == "regp" else self.consumers
            valid = registration_valid(op[1], op[2], n == "regc")
            if valid:
                reg.add(op[1])
                if head != ["c", "0"]:
                    bad.append((f"{n} {op[1]} {op[2]}: a valid registration was not accepted: {head}", None))
            elif head == ["c", "0"] or head[0] != "c":
                bad.append((f"{n} {op[1]} {op[2]}: an invalid registration (unknown ITS-AID / permissions not covering "
                            f"the application) was answered {head}", None))
        elif n in ("deregp", "deregc"):
            reg = self.providers if n == "deregp" else self.consumers
            want = "0" if op[1] in reg else "1"
            reg.discard(op[1])
            if head != ["c", want]:
                bad.append((f"{n} {op[1]}: ack {head} expected {want}", None))
        elif n == "add":
            _, app, ts, loc, validity, objser = op[:6]
            if app not in self.providers:
                if head != ["c", "-1"]:
                    bad.append((f"add by unregistered provider {app} answered {head}", None))
                    if head[0] == "c" and int(head[1]) >= 0:
                        self._insert(int(head[1]), app, ts, loc, validity, objser)   # follow the code
            else:
                if head[0] != "c" or int(head[1]) < 0:
                    bad.append((f"add by registered provider {app} refused: {head}", None))
                else:
                    i = int(head[1])
                    if i in self.ever:
                        bad.append((f"identifier {i} reused", None))
                    self._insert(i, app, ts, loc, validity, objser)
                    if self.mono - self.last_gc_mono >= 1000:       # reactive maintenance
                        self._maintain()
                        self.last_gc_mono = self.mono
        elif n == "upd":
            _, app, i, objser = op[:4]
            ok = head == ["c", "0"]
            o = self.objs.get(i)
            should = app in self.providers and o is not None and obj_type(objser) == o["type"]
            if ok and not should:
                if app not in self.providers and o is not None and obj_type(objser) == o["type"]:
                    bad.append((f"update of object {i} accepted from unregistered application {app}", "C12-KF2"))
                    self._replace(i, objser)
                else:
                    bad.append((f"update {i} by {app} succeeded but must be refused", None))
            elif should and not ok:
                bad.append((f"update {i} by registered provider {app} refused: {head}", None))
            elif should:
                self._replace(i, objser)
        elif n == "del":
            _, app, i = op
            ok = head == ["c", "0"]
            present = i in self.objs
            should = app in self.providers and present
            if ok and not should:
                if app not in self.providers and present:
                    bad.append((f"delete of object {i} accepted from unregistered application {app}", "C12-KF2"))
                    del self.objs[i]
                    self.gone[i] = "deleted"
                else:
                    bad.append((f"delete {i} by {app} reported success but must be refused"
                                + (f" (identifier {i} was {self.gone[i]} before)" if i in self.gone else ""), None))
            elif should and not ok:
                bad.append((f"delete {i} by registered provider {app} refused: {head}", None))
            elif should:
                del self.objs[i]
                self.gone[i] = "deleted"
        elif n == "req":
            _, app, types, prio, order, flt = op
            hd, recs, _ = L.split_line(line)
            valid = (app in self.consumers and all(t in TYPE_TABLE() for t in types)
                     and (prio is None or 0 <= prio <= 255) and order != "!" and flt != "!")
            if not valid:
                if hd[0] != "r" or recs:
                    bad.append((f"request that must be refused (app {app}, types {types}, prio {prio}) answered {hd[:2]}", None))
            elif hd[0] != "ok":
                bad.append((f"valid request by registered consumer {app} answered {hd[:2]}", None))
            elif flt is None:
                bad += self.judge_view(collections.Counter(recs), set(types), f"request types={types}")
        elif n == "gc":
            self._maintain()
        elif n == "adv":
            self.utc += op[1]
            self.mono += op[1]
        return bad

    def _insert(self, i, app, ts, loc, validity, objser):
        self.ever.add(i)
        self.objs[i] = {"tok": self.rec_token(app, ts, loc, validity, objser), "expiry": ts + validity * 1000,
                        "type": obj_type(objser), "loc": loc, "fields": (app, ts, loc, validity), "area_may": False}

    def _replace(self, i, objser):
        o = self.objs[i]
        app, ts, loc, validity = o["fields"]
        o["tok"] = self.rec_token(app, ts, loc, validity, objser)
        # "a successful update replaces only its content": type checked equal, everything else kept

    def judge_view(self, seen, types, where):
        """seen: multiset of record tokens; must <= seen <= must + may"""
        bad = []
        must, may = self.expected_sets(types)
        missing = must - seen
        extra = seen - (must + may)
        for tok, k in missing.items():
            ids = [i for i, o in self.objs.items() if o["tok"] == tok]
            fid = None
            # C12-KF1 only explains a loss that happens AT a maintenance pass, of objects inside the KF1 region, on a
            # tree that still has the area test as written
            if (ids and self.at_maintenance and not self.area_fixed
                    and all(area_deletes_as_is(self.cfg, self.objs[i]["loc"]) for i in ids)):
                fid = "C12-KF1"
            head = tok.rsplit(" ", 1)[0]
            if fid is None and any(x.rsplit(" ", 1)[0] == head for x in extra):
                # same application id / timestamp / location / validity, but a content this identifier never got
                bad.append((f"{where}: object {ids} is stored with a content it was never given (no add / successful "
                            f"update of it carried that content: an operation on another object changed it)", fid))
            else:
                bad.append((f"{where}: object {ids} not returned although added, not deleted and not expired", fid))
            if fid:                                 # follow the code so that one loss is reported once
                for i in ids:
                    self.gone[i] = "area-collected"
                    del self.objs[i]
        for tok, k in extra.items():
            bad.append((f"{where}: returned an object that is deleted, expired-and-collected, of another type or "
                        f"never added: {tok[:80]}", None))
        if types is None:
            # objects the reference allowed to be discarded for the area rule and that are gone now stay gone
            left = seen - must
            for i in [i for i, o in self.objs.items() if o["area_may"]]:
                tok = self.objs[i]["tok"]
                if left[tok] > 0:
                    left[tok] -= 1
                else:
                    self.gone[i] = "area-collected"
                    del self.objs[i]
        return bad

    def judge_registries(self, providers, consumers):
        bad = []
        if set(providers) != self.providers:
            bad.append((f"provider registry {sorted(providers)} expected {sorted(self.providers)}", None))
            self.providers = set(providers)
        if set(consumers) != self.consumers:
            bad.append((f"consumer registry {sorted(consumers)} expected {sorted(self.consumers)}", None))
            self.consumers = set(consumers)
        return bad


# ------------------------------------------------------------------------------------ providers that re-use objects

ALIAS_KINDS = ("same", "obj", "sub")
ALIAS_STATS = collections.Counter()      # how often the real driver really handed a re-used object to the facility


def plain(op):
    """an operation without its aliasing annotation: what the Lean model and the reference map see.
    `["add", app, ts, loc, validity, objser, [kind, k]]`, `["upd", app, id, objser, [kind, k]]`: the provider builds
    this request out of Python objects it already used for operation number k of the same history -
      same  the very same AddDataProviderReq instance is sent again (a re-sent message; add only),
      obj   a new request object carrying the very same data-object dict,
      sub   a new request object, new top-level dict, but the same nested sub-dicts.
    In all three cases the CONTENT is that of a plain add / update with equal fields."""
    if op[0] == "add":
        return op[:6]
    if op[0] == "upd":
        return op[:4]
    return op


class AliasLdm(L.RealLdm):
    """RealLdm whose provider re-uses request objects / data-object dicts as the annotations say.  An annotation is
    honoured only if the re-used object still has the content the operation states (otherwise a fresh object with
    the stated content is built), so the content handed to the facility is always exactly `plain(op)`."""

    def __enter__(self):
        super().__enter__()
        self.made = {}                   # op index -> {"req", "obj", "objser", "fields"}
        self.k = 0
        self.alias_used = collections.Counter()
        return self

    def apply(self, op):
        try:
            return super().apply(op)
        finally:
            self.k += 1

    def _reused(self, op, objser):
        """(kind, source entry) when the annotation of `op` can be honoured"""
        al = op[6] if op[0] == "add" and len(op) > 6 else op[4] if op[0] == "upd" and len(op) > 4 else None
        if not (isinstance(al, (list, tuple)) and len(al) == 2 and al[0] in ALIAS_KINDS):
            return None, None
        src = self.made.get(al[1])
        if src is None or src["objser"] != objser:
            return None, None
        try:
            unchanged = L.ser(src["obj"]) == objser
        except Exception:
            unchanged = False
        if not unchanged:                # the facility wrote into the provider's own dict: do not build on it
            self.alias_used["provider_dict_changed_by_facility"] += 1
            return None, None
        return al[0], src

    def _apply(self, op):
        n = op[0]
        K = L.K
        if n == "add":
            app, ts, loc, validity, objser = op[1:6]
            kind, src = self._reused(op, objser)
            req = obj = None
            if kind == "same" and src["req"] is not None and src["fields"] == list(op[1:6]):
                req, obj = src["req"], src["obj"]
            elif kind == "obj":
                obj = src["obj"]
            elif kind == "sub" and isinstance(src["obj"], dict):
                obj = dict(src["obj"])
            else:
                kind = None
            if obj is None:
                obj = L.deser(objser)
            if req is None:
                req = K.AddDataProviderReq(app, K.TimestampIts(ts), L.real_location(loc), obj, K.TimeValidity(validity))
            self.made[self.k] = {"req": req, "obj": obj, "objser": objser, "fields": list(op[1:6])}
            if kind:
                self.alias_used["add_" + kind] += 1
            r = self.i3.add_provider_data(req)
            return f"c {int(r.data_object_id)}"
        if n == "upd":
            objser = op[3]
            kind, src = self._reused(op, objser)
            if kind in ("same", "obj"):
                obj = src["obj"]
            elif kind == "sub" and isinstance(src["obj"], dict):
                obj = dict(src["obj"])
            else:
                kind, obj = None, L.deser(objser)
            self.made[self.k] = {"req": None, "obj": obj, "objser": objser, "fields": None}
            if kind:
                self.alias_used["upd_" + kind] += 1
            r = self.i3.update_provider_data(K.UpdateDataProviderReq(
                op[1], op[2], K.TimestampIts(self.now_its()), K.Location.initializer(), obj, K.TimeValidity(1)))
            return f"c {int(r.result)}"
        return super()._apply(op)


# ------------------------------------------------------------------------------------ running histories

def wants_dump(hist, k):
    """after which operations the whole row list is compared with the model (maintenance passes, the last op)"""
    return hist["ops"][k][0] == "gc" or k == len(hist["ops"]) - 1


def run_real(hist, with_state=True):
    """real facility on a history; returns (lines, states) with states[i] = (stored tokens, providers, consumers,
    state line)"""
    lines, states = [], []
    with AliasLdm(hist["cfg"]) as r:
        for k, op in enumerate(hist["ops"]):
            lines.append(r.apply(op))
            if with_state:
                states.append(([L.ser_record(d) for d in r.stored()],
                               sorted(r.ldm.ldm_service.data_provider_its_aid),
                               sorted(r.ldm.ldm_service.data_consumer_its_aid),
                               r.state_line(full=wants_dump(hist, k))))
        ALIAS_STATS.update(r.alias_used)
    return lines, states


def judge(hist, lines, states, variants=None):
    """oracle over a whole recorded run; returns [(index, what, finding)]"""
    if variants is None:
        variants = detect_variants()
    ref = Ref(hist["cfg"], area_fixed=bool(variants["areaFixed"]))
    out = []
    for k, (op, line) in enumerate(zip(hist["ops"], lines)):
        bad = ref.step(op, line)
        if states:
            stored, prov, cons = states[k][:3]
            bad += ref.judge_view(collections.Counter(stored), None, "database content")
            bad += ref.judge_registries(prov, cons)
        out += [(k, w, f) for w, f in bad]
    return out


_VARIANTS = {}


def detect_variants():
    """which variant of the two known findings does the code match today? (run the witnesses)"""
    if _VARIANTS:
        return dict(_VARIANTS)
    cfg = {"lat": 415000000, "lon": 21000000, "alt": 0, "relDist": 4}
    at_ldm = dict(lat=cfg["lat"], lon=cfg["lon"], majC=0, minC=0, majO=0, alt=0, altC=0, radius=0, relDist=4, relDir=0)
    obj = L.ser({"cam": {"generationDeltaTime": 1}})
    ops = [["regp", 2, [2]], ["add", 2, L.now_its(L.UTC0_MS), at_ldm, 1000, obj], ["gc"]]
    lines, states = run_real({"cfg": cfg, "ops": ops})
    area_fixed = len(states[-1][0]) == 1
    ops = [["regp", 2, [2]], ["add", 2, L.now_its(L.UTC0_MS), dict(at_ldm, lat=cfg["lat"] + 5000000), 1000, obj],
           ["deregp", 2], ["del", 2, 0]]
    lines, states = run_real({"cfg": cfg, "ops": ops})
    gated = lines[-1] != "c 0"
    _VARIANTS.update({"areaFixed": int(area_fixed), "gated": int(gated), "uniqueIds": 0})
    return dict(_VARIANTS)


def state_differs(real, model):
    """compare two `state` / `dump` lines field by field; a field the real side could not read (`?`) is skipped"""
    a, b = real.split(" "), model.split(" ")
    if len(a) != len(b):
        return True
    return any(x != y and not x.endswith("=?") for x, y in zip(a, b))


def check_history(ctx, hist, variants, tag, model_lines=None):
    """run one history on the real code, judge it, compare with the model output (if given)"""
    lines, states = run_real(hist)
    ctx.evals(len(lines))
    for k, what, fid in judge(hist, lines, states, variants):
        ctx.violation(f"{tag}: op {k} {hist['ops'][k][0]}: {what}",
                      {"kind": "history", "cfg": hist["cfg"], "ops": hist["ops"][:k + 1]}, fid)
    if model_lines is not None:
        for k, (a, st) in enumerate(zip(lines, states)):
            b, bs = model_lines[2 * k], model_lines[2 * k + 1]
            if a != b:
                ctx.mismatch("ldm.history", {"cfg": hist["cfg"], "ops": hist["ops"][:k + 1]}, a[:400], b[:400])
                break
            if state_differs(st[3], bs):
                ctx.mismatch("ldm.state", {"cfg": hist["cfg"], "ops": hist["ops"][:k + 1]}, st[3][:400], bs[:400])
                break
            ctx.cover("state_lines_compared")
    return lines


def model_outputs(ctx, hists, variants):
    """per history: [answer line, state/dump line] per operation"""
    if not ctx.model_ok:
        return [None] * len(hists)
    lines, spans = [], []
    for h in hists:
        lines.append(L.init_line(h["cfg"], variants))
        spans.append((len(lines), 2 * len(h["ops"])))
        for k, op in enumerate(h["ops"]):
            lines.append(L.op_line(plain(op)))
            lines.append("dump" if wants_dump(h, k) else "state")
    out = ctx.model("Ldm", lines)
    if any(o == "bad-op" for o in out):
        k = next(i for i, o in enumerate(out) if o == "bad-op")
        raise Infra(f"model driver rejected line: {lines[k][:200]}")
    return [out[a:a + n] for a, n in spans]


# ------------------------------------------------------------------------------------ generation

def small_message(rng, t=None):
    """compact synthetic data object of type t (opaque content for the store)"""
    t = t if t is not None else rng.choice([2, 2, 1, 16, 14, 3, 20, None])
    body = {"header": {"protocolVersion": 2, "messageId": t or 0, "stationId": rng.choice([1, 2, 7, rng.randrange(1000)])}}
    if t is None:
        body["unknownMessage"] = {"x": rng.randrange(5)}
    else:
        body[TYPE_TABLE()[t]] = {"generationDeltaTime": rng.randrange(0, 65536), "tag": rng.choice(["a", "b", ""])}
    if rng.random() < 0.1:          # a second type key later in the dictionary: the first one decides
        body["vam" if t != 16 else "cam"] = {"generationDeltaTime": 0}
    return L.ser(body)


def gen_loc(rng, cfg, region=None):
    """a location inside ("in"), on the border of ("border") or outside ("out") the LDM's relevance distance, with
    altitude differences on both sides of every constant of the altitude test (0..3, 12..17, +-, far)"""
    rel = cfg["relDist"]
    t = REL_LESS.get(rel, REL_GREATER.get(rel))
    region = region or rng.choice(["in", "in", "border", "out", "out"])
    if region == "in":
        d = rng.choice([0, 0, 1, t // 3, rng.randrange(0, max(1, t - 1))])
    elif region == "border":
        d = rng.choice([t - 1, t, t + 1])
    else:
        d = rng.choice([2 * t, rng.randrange(t + 2, 3 * t + 3), rng.randrange(0, 10 ** 7), 10 ** 6])
    if rng.random() < 0.5:
        dlat, dlon = d, 0
    else:
        dlat = rng.randrange(0, d + 1)
        dlon = int(max(0, d * d - dlat * dlat) ** 0.5)
    return dict(lat=cfg["lat"] + rng.choice([-1, 1]) * dlat, lon=cfg["lon"] + rng.choice([-1, 1]) * dlon,
                majC=rng.choice([0, 1, 4095]), minC=rng.choice([0, 2, 4095]), majO=rng.choice([0, 3, 3601]),
                alt=cfg["alt"] + rng.choice([0, 0, 1, 2, 3, 4, -1, -3, -4, 12, 13, 14, 15, 16, 17, 100, -100, 800001]),
                altC=rng.choice([0, 15]), radius=rng.choice([0, 2000]), relDist=rng.randrange(0, 8),
                relDir=rng.randrange(0, 4))


def gen_history(rng, n_ops, variants, pool, mode=None):
    """mode "mixed": everything; "collide": several providers with small ITS-AIDs, many objects, updates / deletes
    aimed at identifiers that equal registered ITS-AIDs; "expire": short validities, long clock advances so that
    maintenance passes empty the store, then adds and operations on stale identifiers; "alias": the provider re-uses
    request objects / data-object dicts / nested sub-dicts of earlier operations (see `plain`) for many of its adds and
    some of its updates, and aims updates / deletes at the identifiers involved.  Every mode contains a few such steps."""
    mode = mode or rng.choice(["mixed", "mixed", "mixed", "collide", "expire", "alias", "alias"])
    cfg = {"lat": rng.choice([415000000, -338000000, 0]), "lon": rng.choice([21000000, -1234567, 0]),
           "alt": rng.choice([0, 120, -50]), "relDist": rng.choice([0, 1, 2, 3, 4, 4, 5, 6, 7])}
    ops = []
    utc = L.UTC0_MS
    next_id = 0
    if mode == "collide":
        apps = rng.sample(SMALL_AIDS, 4) + [rng.choice(APPS)]
        n_reg = 4
    else:
        apps = [rng.choice([1, 2, 16, 5, 14])] + rng.sample(APPS, 3) + [2]
        n_reg = 2
    prov, live, types_of, stale = set(), [], {}, []        # rough bookkeeping, only to bias the choices below
    add_idx, shared_ids, id_of_op = [], [], {}             # indices of add ops; identifiers believed to share objects
    p_alias = 0.5 if mode == "alias" else 0.06
    for a in apps[:n_reg]:
        ops.append(["regp", a, [a]])
        ops.append(["regc", a, [a, 1]])
        if registration_valid(a, [a], False):
            prov.add(a)
    p_add = {"mixed": 0.32, "collide": 0.42, "expire": 0.30, "alias": 0.36}[mode]
    region_bias = rng.choice([None, None, "in", "out"])      # some histories keep most objects on one side
    if mode == "alias":
        region_bias = rng.choice(["out", "out", None])
    while len(ops) < n_ops:
        x = rng.random()
        app = rng.choice(apps[:n_reg]) if rng.random() < 0.7 else rng.choice(apps)
        if x < 0.06:
            perms = rng.choice([[app], [app, 1], [], [rng.choice(APPS)], [2, 16], [4, 5]])
            kind = rng.choice(["regp", "regc"])
            ops.append([kind, app, perms])
            if kind == "regp" and registration_valid(app, perms, False):
                prov.add(app)
        elif x < 0.10:
            kind = rng.choice(["deregp", "deregc"])
            ops.append([kind, app])
            if kind == "deregp":
                prov.discard(app)
        elif x < 0.10 + p_add:
            now = L.now_its(utc)
            ts = now + rng.choice([0, 0, 0, -1000, -2000, -60000, 1000, 5000])
            if mode == "expire":
                validity = rng.choice([0, 0, 1, 1, 2, 3])
            else:
                validity = rng.choice([0, 0, 1, 1, 2, 3, 5, 60, 1000, 100000])
            loc = gen_loc(rng, cfg, region_bias if rng.random() < 0.7 else None)
            obj = rng.choice(pool) if rng.random() < 0.15 else small_message(rng)
            src_k = None
            if add_idx and rng.random() < p_alias:                      # built from objects of an earlier add
                src_k = rng.choice(add_idx[-6:])
                kind = rng.choice(["same", "same", "obj", "sub"])
                if kind == "same":                                      # the same request instance, sent again
                    ops.append(list(ops[src_k][:6]) + [["same", src_k]])
                else:                                                   # another request around the same dict(s)
                    ops.append(["add", app, rng.choice([ts, ops[src_k][2]]), rng.choice([loc, ops[src_k][3]]),
                                rng.choice([validity, ops[src_k][4]]), ops[src_k][5], [kind, src_k]])
            elif ops and ops[-1][0] == "add" and rng.random() < 0.08:   # exact duplicate of the previous object
                ops.append(list(ops[-1][:6]))
            else:
                ops.append(["add", app, ts, loc, validity, obj])
            add_idx.append(len(ops) - 1)
            if ops[-1][1] in prov:
                types_of[next_id] = obj_type(ops[-1][5])
                live.append(next_id)
                id_of_op[len(ops) - 1] = next_id
                if src_k is not None:
                    shared_ids += [next_id] + ([id_of_op[src_k]] if src_k in id_of_op else [])
                next_id += 1
        elif x < 0.28 + p_add:
            r = rng.random()
            if mode == "collide" and r < 0.5 and next_id:
                i = rng.choice([a for a in apps[:n_reg]] + [next_id - 1])      # an identifier equal to an ITS-AID
            elif shared_ids and r < (0.6 if mode == "alias" else 0.2):
                i = rng.choice(shared_ids[-8:])                                # an identifier sharing Python objects
            elif stale and r < 0.35:
                i = rng.choice(stale)                                          # an identifier of a vanished object
            elif live and r < 0.8:
                i = rng.choice(live)
            else:
                i = rng.choice([rng.randrange(0, next_id + 1), next_id + 3])
            if rng.random() < 0.5:
                t = types_of.get(i)
                same_type = [k for k in add_idx[-10:] if obj_type(ops[k][5]) == t]
                if same_type and rng.random() < (0.3 if mode == "alias" else 0.04):
                    k = rng.choice(same_type)                  # the update carries the dict(s) of an earlier add
                    ops.append(["upd", app, i, ops[k][5], [rng.choice(["obj", "obj", "sub"]), k]])
                    shared_ids += [i] + ([id_of_op[k]] if k in id_of_op else [])
                else:
                    ops.append(["upd", app, i, small_message(rng, t) if (t is not None and rng.random() < 0.75)
                                else small_message(rng)])
            else:
                ops.append(["del", app, i])
                if i in live and rng.random() < 0.9:
                    live.remove(i)
                    stale.append(i)
        elif x < 0.48 + p_add:
            types = rng.choice([[2], [1], [16], [2, 16], [1, 2, 16, 14, 3, 20], [14], [], [2, 99], [0]])
            prio = rng.choice([None, None, None, 0, 1, 255, 256, -1])
            order = rng.choice([None] * 18 + ["!", {"kind": "U", "keys": []}, {"kind": "L", "keys": []}])
            flt = None if rng.random() < 0.97 else "!"
            ops.append(["req", app, types, prio, order, flt])
        elif x < 0.54 + p_add:
            ops.append(["gc"])
            if mode == "expire":
                stale += live[-3:]
        else:
            if mode == "expire":
                ms = rng.choice([1000, 2000, 5000, 5000, 60000, 125, 875])
            else:
                ms = rng.choice([125, 250, 500, 875, 1000, 1000, 1125, 2000, 3000, 5000, 60000])
            utc += ms
            ops.append(["adv", ms])
    ops.append(["req", apps[0], [1, 2, 16, 14, 3, 20], None, None, None])
    return {"cfg": cfg, "ops": ops}


def boundary_histories(variants):
    """scripted cases on every comparison constant of the model and on the classes of histories the clauses quantify
    over: expiry strictness (validity 0 / 1 / 2 s), reactive trigger, area thresholds t*t-1 / t*t per relevance code,
    altitude differences, duplicates, identifiers equal to registered ITS-AIDs, maintenance passes that empty the
    store followed by adds and by operations on stale identifiers"""
    out = []
    now0 = L.now_its(L.UTC0_MS)
    obj = L.ser({"cam": {"generationDeltaTime": 1}})
    obj2 = L.ser({"cam": {"generationDeltaTime": 2}})
    denm = L.ser({"denm": {"management": {}}})
    vam = L.ser({"vam": {"generationDeltaTime": 3}})
    base = {"lat": 415000000, "lon": 21000000, "alt": 0, "relDist": 4}

    def loc(dlat=10 ** 6, dlon=0, alt=0, **kw):
        d = dict(lat=base["lat"] + dlat, lon=base["lon"] + dlon, majC=1, minC=2, majO=3, alt=alt, altC=0, radius=0,
                 relDist=1, relDir=0)
        d.update(kw)
        return d
    pre = [["regp", 2, [2]], ["regc", 2, [2]]]
    q = ["req", 2, [1, 2, 16], None, None, None]
    # expiry strictness and reactive trigger
    for val, adv in ((1, 1000), (1, 2000), (0, 0), (0, 1000), (2, 1875), (2, 2000), (2, 3000)):
        for trig in (875, 1000):
            out.append({"cfg": base, "ops": pre + [["add", 2, now0, loc(), val, obj], ["adv", adv], q, ["gc"], q,
                                                   ["adv", trig], ["add", 2, now0 + 10 ** 6, loc(), 100, obj2], q]})
    # validity 0 / 1 next to longer ones, inside the area at an altitude both area rules keep (13) and outside
    for where in (loc(300, 0, 13), loc()):
        out.append({"cfg": base, "ops": pre + [["add", 2, now0, where, 0, obj], ["add", 2, now0, where, 1, obj2],
                                               ["add", 2, now0, where, 5, obj], ["gc"], q, ["adv", 1000], ["gc"], q,
                                               ["adv", 1000], ["gc"], q, ["adv", 4000], ["gc"], q,
                                               ["add", 2, now0 + 6000, where, 0, obj2], q, ["adv", 1000],
                                               ["add", 2, now0 + 7000, where, 3, obj], q]})
    # area thresholds and altitude differences (C12-KF1 region boundaries)
    for rel in range(8):
        cfg = dict(base, relDist=rel)
        t = REL_LESS.get(rel, REL_GREATER.get(rel))
        for d in (0, t - 1, t, t + 1):
            for alt in (0, 1, 2, 12, 13, 14, 15, 16, 17, -1, -20):
                out.append({"cfg": cfg, "ops": pre + [["add", 2, now0, loc(d, 0, alt), 1000, obj], ["gc"], q]})
    # duplicates: delete the second of two equal records, then the first
    out.append({"cfg": base, "ops": pre + [["add", 2, now0, loc(), 50, obj], ["add", 2, now0, loc(), 50, obj],
                                           ["del", 2, 1], q, ["del", 2, 1], ["del", 2, 0], q, ["add", 2, now0, loc(), 50, obj], q]})
    # update keeps everything but the content; type mismatch and unknown id refused
    out.append({"cfg": base, "ops": pre + [["add", 2, now0 - 1000, loc(majO=77, minC=5), 50, obj], ["upd", 2, 0, obj2], q,
                                           ["upd", 2, 0, denm], ["upd", 2, 9, obj2], q]})
    # refused requests leave no trace; unregistered add; registrations the oracle has to refuse / accept itself
    out.append({"cfg": base, "ops": [["add", 2, now0, loc(), 50, obj], ["regp", 2, []], ["regp", 0, [0]], ["regp", 22, [22]],
                                     ["regp", 1, [5]], ["regp", 5, [1]], ["regp", 21, [21]], ["regc", 4, [9]], ["regc", 3, [9]],
                                     ["regc", 5, [2]], ["regc", 21, [21, 2]], ["regc", 22, [22]], ["regc", 2, []],
                                     ["req", 4, [2], None, None, None], ["req", 3, [2], None, None, None]]})
    # identifiers that equal registered ITS-AIDs: objects 0..16 exist, providers 1, 2, 3, 16 (and consumers 1, 2, 16)
    # are registered; every identifier is updated, then deleted; the registries must not move and every provider
    # must still be able to add
    provs = [1, 2, 3, 16]
    kinds = {1: denm, 2: obj, 3: L.ser({"poi": {"x": 1}}), 16: vam}
    for where in (loc(), loc(300, 0, 13)):
        ops = []
        for a in provs:
            ops += [["regp", a, [a]], ["regc", a, [a, 2]]]
        for i in range(17):
            a = provs[i % 4]
            ops.append(["add", a, now0, where, 1000, kinds[a]])
        for i in list(range(17)) + [1, 2]:
            a = provs[i % 4]
            ops.append(["upd", a, i, kinds[a]])
        for i in (16, 3, 2, 1, 0, 5, 2, 16, 17):
            ops.append(["del", provs[(i + 1) % 4], i])
            ops.append(["add", provs[i % 4], now0, where, 1000, kinds[provs[i % 4]]])
        ops.append(["req", 2, [1, 2, 3, 16], None, None, None])
        out.append({"cfg": base, "ops": ops})
    # a maintenance pass (explicit / reactive) that empties the store, then adds: identifiers go on, the stale
    # identifiers are unknown to update / delete, the new objects are untouched
    for gc in ("gc", "reactive"):
        for n_old in (1, 2, 3):
            ops = [["regp", 2, [2]], ["regp", 16, [16]], ["regc", 2, [2, 16]]]
            ops += [["add", 2, now0, loc(), k % 2, obj] for k in range(n_old)]
            ops += [["adv", 5000]] + ([["gc"]] if gc == "gc" else [["add", 16, now0, loc(), 0, vam]])
            ops += [["req", 2, [2, 16], None, None, None], ["add", 16, now0 + 5000, loc(), 1000, vam],
                    ["add", 2, now0 + 5000, loc(), 1000, obj2], ["gc"], ["del", 2, 0], ["upd", 2, 1, obj2], ["del", 16, n_old],
                    ["req", 2, [2, 16], None, None, None], ["adv", 2000], ["gc"], ["add", 2, now0 + 7000, loc(), 0, obj],
                    ["req", 2, [2, 16], None, None, None]]
            out.append({"cfg": base, "ops": ops})
    # providers that re-use Python objects (see `plain`): three identifiers built from ONE request instance / ONE
    # data-object dict / the same nested sub-dicts (the third from the second: chains), then an update and a delete
    # aimed at each of them in turn, an update of another one, a maintenance pass: every identifier keeps what ITS
    # history says
    obj3 = L.ser({"cam": {"generationDeltaTime": 3, "camParameters": {"speedValue": 99}}})
    nested = L.ser({"header": {"protocolVersion": 2, "stationId": 7},
                    "cam": {"generationDeltaTime": 1, "camParameters": {"speedValue": 10}}})
    for kind in ALIAS_KINDS:
        for target in (0, 1, 2):
            others = [i for i in (0, 1, 2) if i != target]
            a0 = ["add", 2, now0, loc(), 1000, nested]
            ops = pre + [a0, a0 + [[kind, 2]], a0 + [[kind, 3]], q,
                         ["upd", 2, target, obj3], q, ["upd", 2, others[0], obj2], q, ["del", 2, target], q,
                         ["upd", 2, others[1], obj3, ["obj", 6]], q, ["gc"], q, ["del", 2, others[0]], q]
            out.append({"cfg": base, "ops": ops})
    # distinct requests (timestamps / validities / locations differ) around one dict: the expiry of one of them, an
    # update or a delete of one of them leaves the others; an update that carries the dict another identifier was
    # added with, followed by updates / deletes of either
    for kind in ("obj", "sub"):
        ops = pre + [["add", 2, now0, loc(), 1, nested], ["add", 2, now0 - 1000, loc(300, 0, 13), 100, nested, [kind, 2]],
                     ["add", 16, now0, loc(), 100, nested, [kind, 3]], ["regp", 16, [16]],
                     ["add", 16, now0, loc(), 100, nested, [kind, 2]], q, ["adv", 3000], ["gc"], q,
                     ["upd", 2, 2, obj3], q, ["del", 2, 1], q, ["upd", 2, 2, nested, [kind, 2]], q]
        out.append({"cfg": base, "ops": ops})
        ops = pre + [["add", 2, now0, loc(), 1000, obj], ["add", 2, now0, loc(), 1000, nested],
                     ["upd", 2, 0, nested, [kind, 3]], q, ["upd", 2, 1, obj3], q, ["upd", 2, 0, obj2], q,
                     ["upd", 2, 1, nested, [kind, 3]], ["del", 2, 0], q, ["upd", 2, 1, obj3, [kind, 6]], q]
        out.append({"cfg": base, "ops": ops})
    return out


def load_corpus():
    return [(name, c) for name, c in corpus("C12") if c.get("kind") == "history"]


def run(ctx):
    ctx.extra["rule"] = ("one evaluation = one interface operation executed on the real facility, judged by the reference "
                         "map (response, database content, both registries) and compared with the Lean model (answer "
                         "line and state line: id counter, registries, row ids); distinct_nontrivial counts distinct "
                         "(operation kind, outcome, store size bucket) triples")
    variants = detect_variants()
    ctx.extra["variant"] = {"C12-KF1": "area test repaired" if variants["areaFixed"] else "area test as written (code as is)",
                            "C12-KF2": "update/delete gated" if variants["gated"] else "update/delete not gated (code as is)"}
    hists = [("corpus:" + n, {"cfg": c["cfg"], "ops": c["ops"]}) for n, c in load_corpus()]
    ctx.cover("corpus_cases", len(hists))
    hists += [(f"boundary:{i}", h) for i, h in enumerate(boundary_histories(variants))]
    pool = [L.ser(L.make_message(ctx.rng, k, o)) for k in ("cam", "vam", "denm") for o in (False, True)]
    n_hist = ctx.scale(200, 8000)
    for i in range(n_hist):
        n_ops = ctx.rng.choice([12, 30, 60, 120] if not ctx.thorough else [12, 30, 60, 120, 250, 400])
        hists.append((f"random:{i}", gen_history(ctx.rng, n_ops, variants, pool)))
    chunk = 400
    for a in range(0, len(hists), chunk):
        part = hists[a:a + chunk]
        outs = model_outputs(ctx, [h for _, h in part], variants)
        for (tag, h), mo in zip(part, outs):
            lines = check_history(ctx, h, variants, tag, mo)
            size = 0
            for op, ln in zip(h["ops"], lines):
                hd = ln.split(" ")
                outcome = hd[0] + (hd[1] if hd[0] in ("c", "r", "x") and op[0] != "add" else "")
                if op[0] == "add":
                    outcome = "refused" if hd[:2] == ["c", "-1"] else "stored"
                    size += outcome == "stored"
                    ctx.cover("add_region:" + ("inside_relevance_distance" if within(h["cfg"]["relDist"], h["cfg"], op[3])
                                               else "outside_relevance_distance")
                              + ("/in_area" if in_area(h["cfg"], op[3]) else "/outside_altitude_band")
                              + ("/kf1_region" if area_deletes_as_is(h["cfg"], op[3]) else "/kept_as_is"))
                    ctx.cover("add_validity:" + (str(op[4]) if op[4] <= 2 else ">2"))
                if plain(op) != op:
                    ctx.cover(f"alias_{op[0]}:{op[-1][0]}:{outcome}")
                ctx.cover(f"op_{op[0]}:{outcome}")
                ctx.nontrivial((op[0], outcome, min(size, 40) // 4))
            ctx.cover("history_len_" + ("<=30" if len(h["ops"]) <= 30 else "<=120" if len(h["ops"]) <= 120 else ">120"))
    for key, n in sorted(ALIAS_STATS.items()):
        ctx.cover("real_driver_reused:" + key, n)
    ALIAS_STATS.clear()
    if hists:
        tag, h = hists[-1]
        ctx.sample("history", {"cfg": h["cfg"], "ops": [op if op[0] != "add" else op[:5] + ["<obj>"] for op in h["ops"][:12]]})


def search(ctx):
    """obligation / correspondence broken: three times the volume, judged on the real code by the oracle only"""
    variants = detect_variants()
    pool = [L.ser(L.make_message(ctx.rng, k, o)) for k in ("cam", "vam", "denm") for o in (False, True)]
    hists = boundary_histories(variants)
    for i in range(ctx.scale(700, 18000)):
        hists.append(gen_history(ctx.rng, ctx.rng.choice([12, 30, 60, 120, 250]), variants, pool))
    for i, h in enumerate(hists):
        check_history(ctx, h, variants, f"search:{i}", None)
        if len(ctx.violations) >= 3:
            break


def replay(ctx, obj):
    case = obj.get("case", obj)
    if case.get("kind") != "history":
        raise Infra(f"unknown replay kind {case.get('kind')}")
    hist = {"cfg": case["cfg"], "ops": case["ops"]}
    lines, states = run_real(hist)
    bad = judge(hist, lines, states)
    for op, ln, st in list(zip(hist["ops"], lines, states))[-6:]:
        print("  ", op[0], (op[1:4] if op[0] != "add" else op[1:3]), "->", ln[:120], "|", st[3][:100])
    for k, what, fid in bad:
        print(f"  VIOLATED at op {k}: {what}" + (f"  [{fid}]" if fid else ""))
    return bool(bad)

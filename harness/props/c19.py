"""C19 — DCC algorithms respect TS 102 687 state, rate and duty-cycle limits.

Theorems: lean/Props/C19.lean about lean/FlexModel/Dcc/{Reactive,Adaptive,Gate}.lean, Spec in FlexModel/Dcc/Spec.lean.
Tie (every run): Generated/Dcc.lean re-read from the source (gen_dcc.py) + differential correspondence of the model
with the real classes DccReactive / DccAdaptive / GateKeeper driven in-process:
  reactive  exhaustive tree of all sequences over band-edge representatives (every edge of the code tables and of
            Annex A, -1/0/+1 in 1e-4 units, plus 0 and 1) up to length 4 (quick) / 5 (thorough) from every state and for
            both tables, every node compared with the model's transition table; random long sequences incl. off-grid
            floats, neighbours of the edges by one ulp, invalid values, NaN/inf
  adaptive  random parameter sets / CBR sequences; each step compared twice: "synced" (model state set to the exact
            rational of the real float state before the step) and "free" (model runs on its own)
  gate      random delta, arrival patterns placed relative to the real t_go, T_on, delta updates; synced + free
Python floats vs exact rationals: values relative 1e-9; decisions exactly unless the model reports a rational margin
below the band (counted in `tolerance_skips`).
Oracle: independent transcription (below) of Annex A, clause 5.4 (1)-(6), B.1/B.2 applied to the REAL outputs;
for reactive traces additionally the Lean `Spec.reactiveHolds` through the driver.
"""
from __future__ import annotations

import copy
import math
from fractions import Fraction as F

from common import Infra, corpus

import flexstack.management.dcc_reactive as R
import flexstack.management.dcc_adaptive as A

MODULES = ["Props.C19"]
DRIVERS = ["Dcc"]
TRUSTED = [
    "abstraction of a float CBR x to the 1e-4 cell k (k/1e4 <= x < (k+1)/1e4, k itself when x is the double of k/1e4; "
    "ceil for x > 1): exact for every comparison of the reactive code because gen_dcc.py refuses table values that are "
    "not doubles of grid points",
    "modelled rather than verified: IEEE-754 double arithmetic of DccAdaptive/GateKeeper (model and oracle use exact "
    "rationals of the same float inputs; values compared with relative tolerance 1e-9)",
    "Annex A / clause 5.4 / Annex B numbers in FlexModel/Dcc/Spec.lean and in this module were typed from the builder's "
    "knowledge of TS 102 687 V1.2.1 (no network access to the PDF) — provenance in design_notes/C19.md",
]
ASSUMPTIONS = [
    "DccReactive starts in RELAXED and `state` is only written by update(); GateKeeper is constructed with delta != 0",
    "the gate tolerance _T_EPSILON (generated, obligation <= 1e-6 s) is treated as measurement tolerance: admissions may be "
    "25 ms - eps apart and the oracle does not judge is_open() inside [t_go - 1 us, t_go)",
]

REL = 1e-9
INF = float("inf")
NAN = float("nan")

# ----------------------------------------------------------------------------------------------------------------
# Independent oracle data (typed from TS 102 687 V1.2.1, not read from the code)
# ----------------------------------------------------------------------------------------------------------------
# Table A.1's Active 3 / Restrictive edge (60 %) follows the value the repository documents and tests; the builder's
# recollection (65 % in both tables) is NOT claimed as a finding — design_notes/C19.md "Discrepancy not claimed".
ANNEX = {   # a2? -> (lower CBR edge of Active1..Restrictive in 1e-4, rate Hz, T_off ms) per state
    False: ([3000, 4000, 5000, 6000], [F(10), F(5), F(5, 2), F(2), F(1)], [100, 200, 400, 500, 1000]),
    True: ([3000, 4000, 5000, 6500], [F(20), F(10), F(5), F(4), F(1)], [50, 100, 200, 250, 1000]),
}
TABLE3 = dict(alpha=F(16, 1000), beta=F(12, 10000), cbr_target=F(68, 100), delta_max=F(3, 100), delta_min=F(6, 10000),
              delta_up_max=F(5, 10000), delta_down_max=F(-25, 100000))
G_MIN, G_MAX, G_TOL = F(25, 1000), F(1), F(1, 10**6)


def cell(x):
    """float CBR -> 1e-4 cell (see TRUSTED); None for NaN/inf"""
    if x != x or x in (INF, -INF):
        return None
    fr = F(x) * 10000
    k = round(fr)
    if float(F(k, 10000)) == x:
        return int(k)
    return math.ceil(fr) if x > 1.0 else math.floor(fr)


def band(a2, k):
    return sum(1 for e in ANNEX[a2][0] if e <= k)


def rs(x):
    """exact rational of a float as the driver's token"""
    fr = F(x)
    return f"{fr.numerator}/{fr.denominator}"


def parse_rat(tok):
    if tok == "-":
        return None
    n, _, d = tok.partition("/")
    return F(int(n), int(d or 1))


def close(real, model, rel=REL):
    """real float vs model Fraction"""
    if real is None or model is None:
        return real is None and model is None
    if real != real or real in (INF, -INF):
        return False
    return abs(F(real) - model) <= rel * max(abs(model), abs(F(real))) + F(1, 10**15)


class Batch:
    """collects driver lines of all streams so that the Lean driver is started once per run"""

    def __init__(self):
        self.lines, self.parts = [], []

    def add(self, lines, callback):
        if lines:
            self.parts.append((len(self.lines), len(lines), callback))
            self.lines += lines

    def flush(self, ctx):
        if not self.lines or not ctx.model_ok:
            return
        out = ctx.model("Dcc", self.lines)
        for start, n, cb in self.parts:
            cb(out[start:start + n])
        self.lines, self.parts = [], []


# ----------------------------------------------------------------------------------------------------------------
# Reactive: real runner, oracle
# ----------------------------------------------------------------------------------------------------------------
def _num(v, unit=1):
    fr = F(v) * unit
    return str(fr.numerator) if fr.denominator == 1 else f"{fr.numerator}/{fr.denominator}"


_OUT_CACHE = {}


def real_r_update(obj, x):
    """one canonical line for update(x) on the real object (same shape as the driver's `r upd`)"""
    try:
        o = obj.update(x)
    except Exception as e:   # noqa: BLE001 — mapped to a small enum
        return type(e).__name__, None
    try:
        key = (o.state.value, o.packet_rate_hz, o.t_off_ms)
        ent = _OUT_CACHE.get(key)
        if ent is None:
            st = int(key[0])
            ent = (f"ok {st} {_num(key[1], 1000)} {_num(key[2])}", (st, F(key[1]), F(key[2])))
            _OUT_CACHE[key] = ent
        stored = obj.state.value
    except Exception as e:   # noqa: BLE001
        return "bad-output:" + type(e).__name__, None
    return ent[0], ent[1] + (stored,)


def new_reactive(t_on, start):
    """real object in state `start` (driven there through the API; attribute write only as a fallback)"""
    obj = R.DccReactive(t_on_max_us=t_on)
    for _ in range(8):
        if obj.state.value == start:
            break
        obj.update(1.0 if obj.state.value < start else 0.0)
    if obj.state.value != start:
        obj.state = R.DccState(start)
    return obj


def judge_r(a2, js, k, x, line, out):
    """incremental oracle. js = (state, last_k, runlen); returns (js', [(kind, text)]).
    "constant input" is read at the resolution of the Annex A tables: consecutive inputs in the same 1e-4 cell"""
    s, last_k, runlen = js
    bad = []
    valid = k is not None and 0 <= k <= 10000
    if not valid:
        if line != "ValueError":
            bad.append(("reject", f"CBR {x!r} outside [0,1] not rejected with ValueError: {line}"))
        return js, bad
    if out is None:
        bad.append(("accept", f"CBR {x!r} in [0,1] not evaluated: {line}"))
        return js, bad
    st, rate, toff, stored = out
    if stored != st:
        bad.append(("stored", f"returned state {st} but stored state {stored}"))
    if not (0 <= st <= 4):
        bad.append(("state", f"state {st} outside 0..4"))
        return (st, k, 1), bad
    if abs(st - s) > 1:
        bad.append(("adjacency", f"state moved {s} -> {st} in one evaluation (CBR {x!r})"))
    _, rates, toffs = ANNEX[a2]
    if rate != rates[st] or toff != toffs[st]:
        bad.append(("row", f"state {st} output rate {float(rate)} Hz / T_off {float(toff)} ms, Annex A {float(rates[st])} Hz / {toffs[st]} ms"))
    runlen = runlen + 1 if (last_k is not None and k == last_k) else 1
    if runlen >= 4 and st != band(a2, k):
        bad.append(("convergence", f"constant CBR {x!r} for {runlen} evaluations: state {st}, Annex A band {band(a2, k)}"))
    return (st, k, runlen), bad


def classify_r(a2, k, kind):
    return None   # no known findings for C19


def run_reactive_case(case):
    """real code + oracle on one saved case; returns (problems[(kind,text,k)], trace for the Lean Spec, lines)"""
    t_on, start, xs = case["t_on"], case.get("start", 0), case["cbr"]
    a2 = t_on <= 500
    obj = new_reactive(t_on, start)
    js = (start, None, 0)
    probs, trace, lines = [], [], []
    for x in xs:
        k = cell(x)
        line, out = real_r_update(obj, x)
        lines.append(line)
        js, bad = judge_r(a2, js, k, x, line, out)
        probs += [(kind, text, k) for kind, text in bad]
        if out is not None and k is not None:
            trace.append((k, out))
    return probs, trace, lines


def spec_line(a2, s0, trace):
    evs = []
    for k, (st, rate, toff, _) in trace:
        r, t = rate * 1000, toff
        if r.denominator != 1 or t.denominator != 1 or r < 0 or t < 0:
            return None
        evs.append(f"{k}:{st}:{r.numerator}:{t.numerator}")
    return f"r spec {1 if a2 else 0} {s0} " + " ".join(evs)


def code_edges():
    ks = {0, 10000}
    try:
        for tbl in (R._TABLE_A1, R._TABLE_A2):
            for cfg in tbl.values():
                for v in (cfg.cbr_min, cfg.cbr_max):
                    k = cell(float(v))
                    if k is not None and 0 <= k <= 10000:
                        ks.add(k)
    except Exception:   # noqa: BLE001 — tables renamed/restructured: fall back to the Annex A edges
        pass
    for a2 in (False, True):
        ks.update(ANNEX[a2][0])
    return sorted(ks)


def representatives():
    reps = set()
    for e in code_edges():
        for d in (-1, 0, 1):
            if 0 <= e + d <= 10000:
                reps.add(e + d)
    return sorted(reps)


def report_r(ctx, a2, t_on, start, path, kind, text, k):
    ctx.violation(f"reactive[{'A2' if a2 else 'A1'}] {text}",
                  {"kind": "reactive", "t_on": t_on, "start": start, "cbr": list(path)}, finding=classify_r(a2, k, kind))


def reactive_tree(ctx, depth):
    """every sequence over the representatives up to `depth`, from every state, both tables"""
    reps = representatives()
    fl = [(k, k / 10000) for k in reps]
    invalid = [(-1, -1 / 10000), (10001, 10001 / 10000)]
    table = {}
    if ctx.model_ok:
        lines, keys = [], []
        for a2, t_on in ((False, 1000), (True, 500)):
            for s in range(5):
                for k, _ in fl + invalid:
                    lines += [f"r new {t_on}", f"r set {s}", f"r upd {k}"]
                    keys.append((a2, s, k))
        out = ctx.model("Dcc", lines)
        for i, key in enumerate(keys):
            table[key] = out[3 * i + 2]
    nodes = 0
    for a2, t_on in ((False, 1000), (True, 500)):
        for s0 in range(5):
            root = new_reactive(t_on, s0)
            if root.state.value != s0:
                ctx.violation(f"state {s0} not reachable", {"kind": "reactive", "t_on": t_on, "start": s0, "cbr": []})
                continue
            stack = [(root, (s0, None, 0), ())]
            while stack:
                obj, js, path = stack.pop()
                for k, x in invalid:
                    c = copy.copy(obj)
                    line, out = real_r_update(c, x)
                    nodes += 1
                    _, bad = judge_r(a2, js, k, x, line, out)
                    for kind, text in bad:
                        report_r(ctx, a2, t_on, s0, path + (x,), kind, text, k)
                    if c.state.value != js[0]:
                        report_r(ctx, a2, t_on, s0, path + (x,), "reject", f"rejected CBR {x!r} changed the state", k)
                    if table and table[(a2, js[0], k)] != line:
                        ctx.mismatch("reactive.tree", {"t_on": t_on, "start": s0, "cbr": list(path + (x,))}, line, table[(a2, js[0], k)])
                for k, x in fl:
                    c = copy.copy(obj)
                    line, out = real_r_update(c, x)
                    nodes += 1
                    js2, bad = judge_r(a2, js, k, x, line, out)
                    for kind, text in bad:
                        report_r(ctx, a2, t_on, s0, path + (x,), kind, text, k)
                    if table and table[(a2, js[0], k)] != line:
                        ctx.mismatch("reactive.tree", {"t_on": t_on, "start": s0, "cbr": list(path + (x,))}, line, table[(a2, js[0], k)])
                    if out is not None and len(path) + 1 < depth and 0 <= js2[0] <= 4:
                        stack.append((c, js2, path + (x,)))
    ctx.evals(nodes)
    ctx.cover("reactive.tree.nodes", nodes)
    ctx.cover("reactive.tree.representatives", len(reps))
    ctx.cover("reactive.tree.depth", depth)
    for k in reps:
        ctx.nontrivial(("rep", k))
    ctx.extra["reactive_representatives_1e-4"] = reps
    return nodes


def random_cbr(ctx, edges):
    r = ctx.rng.random()
    if r < 0.30:
        return ctx.rng.choice(edges) / 10000 + ctx.rng.choice((-1, 0, 0, 1)) / 10000
    if r < 0.45:
        e = ctx.rng.choice(edges) / 10000
        return math.nextafter(e, ctx.rng.choice((-INF, INF)))
    if r < 0.70:
        return ctx.rng.randrange(0, 10001) / 10000
    if r < 0.93:
        return ctx.rng.random()
    return ctx.rng.choice((-1e-9, -0.0001, -1.0, 1.0000000000000002, 1.0001, 2.0, NAN, INF, -INF, -0.0, 5e-324))


def reactive_random(ctx, n_seq, batch=None):
    edges = code_edges()
    cases = []
    for _ in range(n_seq):
        t_on = ctx.rng.choice((0, 1, 250, 499, 500, 501, 999, 1000, 1001, 10**6, -1))
        xs = []
        n = ctx.rng.randrange(5, 160)
        while len(xs) < n:
            x = random_cbr(ctx, edges)
            xs += [x] * ctx.rng.choice((1, 1, 1, 2, 4, 5, 6))
        cases.append({"kind": "reactive", "t_on": t_on, "start": 0, "cbr": xs[:n]})
    lines, idx = [], []
    for ci, case in enumerate(cases):
        a2 = case["t_on"] <= 500
        probs, trace, real_lines = run_reactive_case(case)
        ctx.evals(len(case["cbr"]))
        for kind, text, k in probs:
            report_r(ctx, a2, case["t_on"], 0, case["cbr"], kind, text, k)
            ctx.cover("reactive.oracle." + kind)
        for ln in real_lines:
            ctx.cover("reactive.out." + ln.split()[0])
        ctx.nontrivial(("rseq", case["t_on"], [cell(x) for x in case["cbr"]]))
        ctx.sample("reactive.random", {"t_on": case["t_on"], "cbr": case["cbr"][:12], "real": real_lines[:12]}, 1)
        if batch is not None and ctx.model_ok:
            lines.append(f"r new {case['t_on']}")
            idx.append((ci, "new", None, f"ok {1 if a2 else 0}"))
            for x, rl in zip(case["cbr"], real_lines):
                k = cell(x)
                if k is None:   # NaN/inf have no cell: judged by the oracle only
                    ctx.cover("reactive.model-skip.nan-inf")
                    continue
                lines.append(f"r upd {k}")
                idx.append((ci, "upd", x, rl))
            sl = spec_line(a2, 0, trace)
            if sl is not None:
                lines.append(sl)
                idx.append((ci, "spec", None, "0" if any(kind in ("adjacency", "row", "convergence", "state") for kind, _, _ in probs) else "1"))
    def finish(out):
        for (ci, what, x, want), got in zip(idx, out):
            if what == "new":
                continue   # table choice is observed through the following outputs
            if got != want:
                ctx.mismatch("reactive.random" if what == "upd" else "reactive.spec-vs-oracle",
                             {"t_on": cases[ci]["t_on"], "cbr": cases[ci]["cbr"], "at": x}, want, got)
    if batch is not None:
        batch.add(lines, finish)


# ----------------------------------------------------------------------------------------------------------------
# Adaptive: real runner, oracle
# ----------------------------------------------------------------------------------------------------------------
PNAMES = ("alpha", "beta", "cbr_target", "delta_max", "delta_min", "delta_up_max", "delta_down_max")


def limeric_spec(p, its, delta, c, cp, positive=None):
    """clause 5.4 equations (1)-(6) on exact rationals; returns (its', delta', diff).
    `positive` overrides the sign decision of step 2 (used only inside the tolerance band |diff| <= 1e-9)"""
    its = F(1, 2) * its + F(1, 2) * ((c + cp) / 2)                                        # (1)
    diff = p["cbr_target"] - its
    if (diff > 0) if positive is None else positive:
        off = min(p["beta"] * diff, p["delta_up_max"])                                    # (2)
    else:
        off = max(p["beta"] * diff, p["delta_down_max"])                                  # (3)
    delta = (1 - p["alpha"]) * delta + off                                                # (4)
    if delta > p["delta_max"]:
        delta = p["delta_max"]                                                            # (5)
    if delta < p["delta_min"]:
        delta = p["delta_min"]                                                            # (6)
    return its, delta, diff


def finite(x):
    return x == x and x not in (INF, -INF)


def run_adaptive_case(case):
    """real code + oracle. returns (problems, records) ; records[i] = (pre_state, args, result_line, post_state)"""
    pv = case["params"]
    params = A.DccAdaptiveParameters(**dict(zip(PNAMES, pv)))
    alg = A.DccAdaptive(parameters=params)
    pf = {n: F(v) for n, v in zip(PNAMES, pv)}
    probs, recs = [], []
    if alg.delta != pv[4] or alg.cbr_its_s != 0.0:
        probs.append(("init", f"initial (cbr_its_s, delta) = ({alg.cbr_its_s}, {alg.delta}), expected (0, delta_min)"))
    for step in case["steps"]:
        l, lp, g, gp = step
        pre = (alg.cbr_its_s, alg.delta)
        try:
            ret = alg.update(l, lp, g, gp)
            line = "ok"
        except Exception as e:   # noqa: BLE001
            ret = None
            line = type(e).__name__ + (":" + str(e).split(" ")[0] if isinstance(e, ValueError) else "")
        post = (alg.cbr_its_s, alg.delta)
        recs.append((pre, step, line, post, ret))
        bad_local = any((v != v) or not (0.0 <= v <= 1.0) for v in (l, lp))
        if bad_local:
            if not line.startswith("ValueError"):
                probs.append(("reject", f"local CBR ({l!r}, {lp!r}) outside [0,1] accepted: {line}"))
            elif post != pre and not (post[0] != post[0] and pre[0] != pre[0]):
                probs.append(("reject", f"rejected call changed the state {pre} -> {post}"))
            continue
        if line != "ok":
            probs.append(("accept", f"valid local CBR ({l!r}, {lp!r}) raised {line}"))
            continue
        if ret != post[1]:
            probs.append(("return", f"update() returned {ret!r}, stored delta {post[1]!r}"))
        use_g = g is not None and gp is not None
        c, cp = (g, gp) if use_g else (l, lp)
        if not all(finite(v) for v in (c, cp, pre[0], pre[1])):
            continue
        e_its, e_delta, diff = limeric_spec(pf, F(pre[0]), F(pre[1]), F(c), F(cp))
        ok = close(post[0], e_its) and close(post[1], e_delta)
        if not ok:
            if abs(diff) <= REL:   # decision of step 2 inside the tolerance band: the other branch is accepted too
                _, e2, _ = limeric_spec(pf, F(pre[0]), F(pre[1]), F(c), F(cp), positive=not (diff > 0))
                if close(post[0], e_its) and close(post[1], e2):
                    recs[-1] = recs[-1] + ("skip",)
                    continue
            probs.append(("equation", f"(cbr_its_s, delta) = {post}, clause 5.4 gives ({float(e_its)!r}, {float(e_delta)!r}) from {pre} with {step}"))
        if pf["delta_min"] <= pf["delta_max"] and not (pv[4] <= post[1] <= pv[3]):
            probs.append(("bounds", f"delta {post[1]!r} outside [{pv[4]!r}, {pv[3]!r}]"))
    return probs, recs


def random_params(ctx):
    r = ctx.rng.random()
    u = ctx.rng.uniform
    if r < 0.25:
        d = A.DccAdaptiveParameters()
        return [getattr(d, n) for n in PNAMES]
    if r < 0.80:
        lo = u(1e-5, 0.02)
        hi = lo + ctx.rng.choice((0.0, u(0, 0.05)))
        return [u(0, 0.2), u(0, 0.01), u(0.05, 0.95), hi, lo, u(0, 2e-3), -u(0, 2e-3)]
    lo, hi = u(-0.01, 0.05), u(-0.01, 0.05)   # odd sets: any sign, alpha > 1, delta_min > delta_max possible
    return [u(-0.5, 1.5), u(-0.01, 0.02), u(-0.2, 1.2), hi, lo, u(-1e-3, 2e-3), u(-2e-3, 1e-3)]


def random_steps(ctx, params, n):
    tgt = params[2]
    steps = []
    mode = ctx.rng.choice(("rand", "rand", "high", "low", "target", "mixed"))
    for _ in range(n):
        r = ctx.rng.random()
        if mode == "high":
            l = lp = ctx.rng.choice((1.0, 0.95, ctx.rng.uniform(0.8, 1.0)))
        elif mode == "low":
            l = lp = ctx.rng.choice((0.0, 0.01, ctx.rng.uniform(0, 0.1)))
        elif mode == "target" and 0 <= tgt <= 1:
            l = lp = min(1.0, max(0.0, tgt + ctx.rng.choice((0.0, 1e-12, -1e-12, 1e-7, -1e-7, 1e-3))))
        else:
            l, lp = ctx.rng.random(), ctx.rng.random()
        if r < 0.06:
            bad = ctx.rng.choice((-1e-9, -0.5, 1.0000000000000002, 1.5, NAN, INF, -INF))
            if ctx.rng.random() < 0.5:
                l = bad
            else:
                lp = bad
        elif r < 0.12:
            l, lp = ctx.rng.choice(((0.0, 1.0), (1.0, 1.0), (0.0, 0.0), (-0.0, 1.0)))
        g = gp = None
        r2 = ctx.rng.random()
        if r2 < 0.15:
            g, gp = ctx.rng.random(), ctx.rng.random()
        elif r2 < 0.20:
            g = ctx.rng.random()
        elif r2 < 0.25:
            gp = ctx.rng.random()
        elif r2 < 0.28:
            g, gp = ctx.rng.uniform(-0.5, 1.5), ctx.rng.uniform(-0.5, 1.5)   # not validated by the code (property: local only)
        steps.append([l, lp, g, gp])
    return steps


def ors(x):
    return "-" if x is None else rs(x)


def adaptive_random(ctx, n_seq, batch=None):
    for _ in range(n_seq):
        params = random_params(ctx)
        case = {"kind": "adaptive", "params": params, "steps": random_steps(ctx, params, ctx.rng.randrange(5, 90))}
        probs, recs = run_adaptive_case(case)
        ctx.evals(len(recs))
        for kind, text in probs:
            ctx.violation("adaptive: " + text, case)
            ctx.cover("adaptive.oracle." + kind)
        for rec in recs:
            ctx.cover("adaptive.out." + rec[2].split(":")[0])
            if len(rec) > 5:
                ctx.cover("tolerance_skips")
        ctx.nontrivial(("aseq", [rs(v) for v in params], len(recs)))
        ctx.cover("adaptive.params." + ("min<=max" if params[4] <= params[3] else "min>max"))
        ctx.sample("adaptive.random", {"params": params, "steps": case["steps"][:3], "real": [[r[2], list(r[3])] for r in recs[:3]]}, 1)
        if batch is None or not ctx.model_ok:
            continue
        head = "a new " + " ".join(rs(v) for v in params)
        lines, idx = [head], [("new", None)]
        for i, (pre, step, line, post, *_r) in enumerate(recs):      # synced pass
            if not all(finite(v) for v in step if v is not None) or not all(finite(v) for v in pre):
                continue
            lines += [f"a set {rs(pre[0])} {rs(pre[1])}", "a upd " + " ".join(ors(v) for v in step)]
            idx += [("set", i), ("sync", i)]
        lines.append(head)
        idx.append(("new", None))
        for i, (pre, step, line, post, *_r) in enumerate(recs):      # free pass
            if not all(finite(v) for v in step if v is not None):
                continue
            lines.append("a upd " + " ".join(ors(v) for v in step))
            idx.append(("free", i))
        batch.add(lines, lambda out, a=(params, case, recs, idx): compare_adaptive(ctx, *a, out))


def compare_adaptive(ctx, params, case, recs, idx, out):
    alive = True
    for (what, i), got in zip(idx, out):
        if what in ("new", "set"):
            if not got.startswith("ok"):
                ctx.mismatch("adaptive.proto", what, "ok", got)
            continue
        pre, step, line, post = recs[i][:4]
        tok = got.split()
        if what == "free" and not alive:
            continue
        if tok[0] != "ok" or line != "ok":
            if got != line:
                ctx.mismatch("adaptive." + what, {"params": params, "steps": case["steps"][:i + 1]}, line, got)
            continue
        m_its, m_delta, m_diff = parse_rat(tok[1]), parse_rat(tok[2]), parse_rat(tok[3])
        if close(post[0], m_its) and close(post[1], m_delta):
            continue
        if abs(m_diff) <= REL:        # step-2 decision inside the tolerance band
            ctx.cover("tolerance_skips")
            if what == "free":
                alive = False
            continue
        ctx.mismatch("adaptive." + what, {"params": params, "steps": case["steps"][:i + 1]},
                     [post[0], post[1]], [float(m_its), float(m_delta)])


# ----------------------------------------------------------------------------------------------------------------
# Gate keeper: real runner, oracle
# ----------------------------------------------------------------------------------------------------------------
def gstate(gk):
    return (gk._delta, gk._t_pg, gk._t_go)


def real_gate_op(gk, op):
    kind = op[0]
    try:
        if kind == "open":
            return "1" if gk.is_open(op[1]) else "0"
        if kind == "adm":
            return "admitted" if gk.admit_packet(op[1], op[2]) else "rejected"
        if kind == "upd":
            gk.update_delta(op[1], op[2])
            return "done"
    except Exception as e:   # noqa: BLE001
        return type(e).__name__
    raise Infra(f"unknown gate op {op}")


def decide_open(tgo, t):
    """B.1/B.2: open from t_go on (True), closed before (False); None inside the 1 us tolerance band below t_go"""
    if tgo is None:
        return True
    if F(t) >= tgo:
        return True
    if F(t) < tgo - G_TOL:
        return False
    return None


def clamp(x):
    return min(max(x, G_MIN), G_MAX)


def run_gate_case(case, planner=None):
    """real code + oracle (spec state advanced by B.1/B.2 with the real admission decisions).
    `planner(gk, last_admission)` may append ops adaptively (times relative to the real t_go)."""
    d0 = case["delta"]
    gk = A.GateKeeper(delta=d0)
    ops = list(case["ops"])
    sd, stpg, stgo = F(d0), None, None
    last_adm = None
    probs, recs = [], []
    i = 0
    while True:
        if planner is not None and i >= len(ops):
            nxt = planner(gk, last_adm, i)
            if nxt is None:
                break
            ops.append(nxt)
        if i >= len(ops):
            break
        op = ops[i]
        i += 1
        pre = gstate(gk)
        line = real_gate_op(gk, op)
        post = gstate(gk)
        recs.append((pre, op, line, post))
        kind, t = op[0], op[1]
        if d0 == 0:
            continue   # outside the assumptions: correspondence only
        exp = decide_open(stgo, t)
        if kind == "open":
            if exp is not None and line != ("1" if exp else "0"):
                probs.append(("open", f"is_open({t!r}) = {line} with t_go(B.1/B.2) = {None if stgo is None else float(stgo)!r}"))
            if last_adm is not None and F(t) >= F(last_adm) + G_MAX and line != "1":
                probs.append(("max-closed", f"still closed at {t!r}, more than 1 s after the admission at {last_adm!r}"))
            if post != pre:
                probs.append(("open", "is_open changed the state"))
        elif kind == "adm":
            ton = op[2]
            if ton <= 0:
                if line != "ValueError" or post != pre:
                    probs.append(("reject", f"admit_packet(t_on={ton!r}) -> {line}, state changed: {post != pre}"))
                continue
            if exp is not None and line != ("admitted" if exp else "rejected"):
                probs.append(("admit", f"admit_packet({t!r}) -> {line} with t_go(B.1/B.2) = {None if stgo is None else float(stgo)!r}"))
            if last_adm is not None and F(t) >= F(last_adm) + G_MAX and line != "admitted":
                probs.append(("max-closed", f"packet at {t!r} rejected more than 1 s after the admission at {last_adm!r}"))
            if line == "admitted":
                if last_adm is not None and F(t) - F(last_adm) < G_MIN - G_TOL:
                    probs.append(("spacing", f"admissions at {last_adm!r} and {t!r} are {float(F(t) - F(last_adm))!r} s apart (< 25 ms)"))
                stpg = F(t)
                stgo = stpg + clamp(F(ton) / sd)                                           # (B.1)
                last_adm = t
                if post[1] != t or not close(post[2], stgo):
                    probs.append(("B.1", f"after admission at {t!r} (t_on {ton!r}, delta {float(sd)!r}): t_pg {post[1]!r}, t_go {post[2]!r}; B.1 gives {float(stgo)!r}"))
                # at most one packet per opening: the gate is closed at the admission instant
                again = copy.copy(gk)
                if again.is_open(t) or again.admit_packet(t, ton):
                    probs.append(("one-per-opening", f"gate still open at {t!r} right after admitting a packet"))
            elif line == "rejected":
                if post != pre:
                    probs.append(("admit", "rejected packet changed the state"))
            else:
                probs.append(("admit", f"admit_packet({t!r}, {ton!r}) raised {line}"))
        elif kind == "upd":
            dn = op[2]
            if dn <= 0:
                if line != "ValueError" or post != pre:
                    probs.append(("reject", f"update_delta(delta_new={dn!r}) -> {line}, state changed: {post != pre}"))
                continue
            if line != "done":
                probs.append(("update", f"update_delta({t!r}, {dn!r}) raised {line}"))
                continue
            cands = []
            if stgo is None or exp is not False:
                cands.append(stgo)                                                         # gate open: only delta changes
            if stgo is not None and exp is not True:
                cands.append(stpg + clamp(sd / F(dn) * (stgo - stpg)))                     # (B.2)
            hit = [c for c in cands if close(post[2], c)]
            if post[0] != dn or post[1] != pre[1] or not hit:
                probs.append(("B.2", f"update_delta({t!r}, {dn!r}) from delta {float(sd)!r}, t_pg {pre[1]!r}, t_go {pre[2]!r} -> t_go {post[2]!r}; "
                                     f"B.2 allows {[None if c is None else float(c) for c in cands]}"))
            else:
                stgo = hit[0]
            sd = F(dn)
        if stpg is not None and stgo is not None and not (G_MIN <= stgo - stpg <= G_MAX):
            raise Infra("oracle invariant broken")
    case = dict(case, ops=ops)
    return probs, recs, case


def gate_planner(ctx, n):
    u = ctx.rng.uniform
    state = {"t": u(0, 5) if ctx.rng.random() < 0.7 else u(0, 5000)}

    def plan(gk, last_adm, i):
        if i >= n:
            return None
        tgo = gk._t_go
        r = ctx.rng.random()
        if tgo is not None and r < 0.45:      # relative to the real opening time
            off = ctx.rng.choice((0.0, 1e-9, -1e-9, 5e-10, -5e-10, 2e-9, -2e-9, 1e-7, -1e-7, -2e-6, 1e-6, -1e-3, 1e-3, -0.01, 0.01, u(-0.05, 0.05)))
            t = tgo + off
        elif last_adm is not None and r < 0.60:
            t = last_adm + ctx.rng.choice((1.0, 1.0 + 1e-7, 0.025, 0.025 - 2e-6, 0.0249, 0.0, 1e-4, 0.999, 1.5))
        else:
            t = state["t"] + ctx.rng.choice((0.0, u(0, 0.03), u(0, 0.3), u(0, 2.0)))
        if ctx.rng.random() < 0.9:
            state["t"] = max(state["t"], t)
        k = ctx.rng.random()
        if k < 0.5:
            ton = ctx.rng.choice((u(1e-5, 5e-3), u(1e-5, 5e-3), 0.001, 0.0005, 1e-6, 0.05))
            if ctx.rng.random() < 0.05:
                ton = ctx.rng.choice((0.0, -0.001, -0.0))
            return ["adm", t, ton]
        if k < 0.75:
            dn = ctx.rng.choice((u(1e-4, 0.05), u(1e-4, 0.05), gk._delta, gk._delta * 2, gk._delta / 2, 0.0006, 0.03, 1e-6, 1.0))
            if ctx.rng.random() < 0.06:
                dn = ctx.rng.choice((0.0, -0.01, -0.0))
            return ["upd", t, dn]
        return ["open", t]
    return plan


def gate_lines(recs, synced):
    lines, idx = [], []
    for i, (pre, op, line, post) in enumerate(recs):
        if not all(finite(v) for v in op[1:]):
            continue
        if synced:
            lines.append(f"g set {rs(pre[0])} {ors(pre[1])} {ors(pre[2])}")
            idx.append(("set", i))
        lines.append({"open": "g open {}", "adm": "g adm {} {}", "upd": "g upd {} {}"}[op[0]].format(*[rs(v) for v in op[1:]]))
        idx.append(("op", i))
    return lines, idx


def gate_random(ctx, n_seq, batch=None):
    for _ in range(n_seq):
        d0 = ctx.rng.choice((ctx.rng.uniform(1e-4, 0.05), ctx.rng.uniform(1e-4, 0.05), 0.0006, 0.03, 0.01, 1e-6, 1.0, -0.01))
        if ctx.rng.random() < 0.02:
            d0 = 0.0
        probs, recs, case = run_gate_case({"kind": "gate", "delta": d0, "ops": []}, gate_planner(ctx, ctx.rng.randrange(5, 90)))
        ctx.evals(len(recs))
        for kind, text in probs:
            ctx.violation("gate: " + text, case)
            ctx.cover("gate.oracle." + kind)
        for _, op, line, _ in recs:
            ctx.cover(f"gate.{op[0]}.{line}")
        ctx.nontrivial(("gseq", rs(d0), [(o[0], rs(o[1])) for o in case["ops"][:6]]))
        ctx.sample("gate.random", {"delta": d0, "ops": case["ops"][:4], "real": [r[2] for r in recs[:4]]}, 1)
        if batch is None or not ctx.model_ok:
            continue
        l1, i1 = gate_lines(recs, True)
        l2, i2 = gate_lines(recs, False)
        batch.add(l1, lambda out, a=(case, recs, i1): compare_gate(ctx, *a, out, "gate.sync"))
        batch.add([f"g new {rs(d0)}"] + l2, lambda out, a=(case, recs, i2): compare_gate(ctx, *a, out[1:], "gate.free"))


def compare_gate(ctx, case, recs, idx, out, stream):
    for (what, i), got in zip(idx, out):
        if what == "set":
            continue
        pre, op, line, post = recs[i]
        tok = got.split()
        # tok: result, pre(delta,tpg,tgo), margin[, post(delta,tpg,tgo)]
        res = tok[0]
        margin = parse_rat(tok[4])
        t = op[1]
        border = margin is not None and abs(margin) <= F(1, 10**12) * max(1, abs(F(t)))
        if res != line:
            if border and {res, line} in ({"0", "1"}, {"admitted", "rejected"}):
                ctx.cover("tolerance_skips")
                if stream == "gate.free":
                    return      # free-running model may have diverged legitimately
                continue
            ctx.mismatch(stream, {"delta": case["delta"], "ops": case["ops"][:i + 1]}, line, got)
            if stream == "gate.free":
                return
            continue
        if op[0] == "open":
            continue
        m_post = [parse_rat(x) for x in tok[5:8]]
        ok = close(post[0], m_post[0]) and close(post[1], m_post[1]) and close(post[2], m_post[2])
        if not ok:
            if border and op[0] == "upd":
                ctx.cover("tolerance_skips")
                if stream == "gate.free":
                    return
                continue
            ctx.mismatch(stream, {"delta": case["delta"], "ops": case["ops"][:i + 1]}, list(post),
                         [None if m is None else float(m) for m in m_post])
            if stream == "gate.free":
                return


# ----------------------------------------------------------------------------------------------------------------
# generated-facts oracle (independent of Lean): the class constants and defaults against the standard
# ----------------------------------------------------------------------------------------------------------------
def check_constants(ctx):
    d = A.DccAdaptiveParameters()
    for n in PNAMES:
        if F(repr(float(getattr(d, n)))) != TABLE3[n]:
            ctx.violation(f"DccAdaptiveParameters.{n} default {getattr(d, n)!r}, Table 3 gives {float(TABLE3[n])!r}",
                          {"kind": "defaults", "name": n})
    ctx.evals(len(PNAMES))


def run_corpus(ctx):
    n = 0
    for name, case in corpus("C19"):
        n += 1
        bad = judge_case(ctx, case, report=True)
        ctx.cover("corpus." + ("violating" if bad else "ok"))
    ctx.cover("corpus_cases", n)


def judge_case(ctx, case, report=False, verbose=False):
    kind = case.get("kind")
    if kind == "reactive":
        a2 = case["t_on"] <= 500
        probs, _, lines = run_reactive_case(case)
        if verbose:
            print("real:", lines[-6:], "->", [t for _, t, _ in probs] or "ok")
        if report:
            for k_, text, k in probs:
                report_r(ctx, a2, case["t_on"], case.get("start", 0), case["cbr"], k_, text, k)
        return bool(probs)
    if kind == "adaptive":
        probs, recs = run_adaptive_case(case)
    elif kind == "gate":
        probs, recs, _ = run_gate_case(case)
    elif kind == "defaults":
        d = A.DccAdaptiveParameters()
        probs = [("defaults", case["name"])] if F(repr(float(getattr(d, case["name"])))) != TABLE3[case["name"]] else []
        recs = []
    else:
        raise Infra(f"unknown replay kind {kind}")
    if verbose:
        print("real:", [r[2] for r in recs[-6:]], "->", [t for _, t in probs] or "ok")
    if report:
        for _, text in probs:
            ctx.violation(f"{kind}: {text}", case)
    return bool(probs)


def run(ctx):
    ctx.extra["rule"] = ("reactive: every node of the exhaustive sequence tree over the band-edge representatives (one real "
                         "update() each) + every step of random sequences; adaptive/gate: every real call of random histories. "
                         "distinct_nontrivial counts distinct representatives and distinct random (parameter set, sequence) cases")
    run_corpus(ctx)
    check_constants(ctx)
    depth = ctx.scale(4, 5)
    reactive_tree(ctx, depth)
    ctx.exhaustive = True
    ctx.note(f"reactive tree exhaustive to depth {depth} over {len(representatives())} representatives x 5 start states x 2 tables")
    batch = Batch()
    reactive_random(ctx, ctx.scale(150, 3000), batch)
    adaptive_random(ctx, ctx.scale(120, 2500), batch)
    gate_random(ctx, ctx.scale(120, 2500), batch)
    batch.flush(ctx)


def search(ctx):
    """obligation/correspondence broken: widen the search on the REAL code, judged by the oracle only"""
    ok = ctx.model_ok
    ctx.model_ok = False
    try:
        check_constants(ctx)
        reactive_tree(ctx, ctx.scale(4, 5))
        reactive_random(ctx, ctx.scale(450, 9000))
        adaptive_random(ctx, ctx.scale(360, 7500))
        gate_random(ctx, ctx.scale(360, 7500))
    finally:
        ctx.model_ok = ok


def replay(ctx, obj):
    return judge_case(ctx, obj.get("case", obj), verbose=True)

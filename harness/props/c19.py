"""C19 — DCC algorithms respect TS 102 687 state, rate and duty-cycle limits.

Theorems: lean/Props/C19.lean about lean/FlexModel/Dcc/{Reactive,Adaptive,Gate}.lean, Spec in FlexModel/Dcc/Spec.lean.
Tie (every run): Generated/Dcc.lean re-read from the source (gen_dcc.py; the gate tolerance is MEASURED on the class)
+ differential correspondence of the model with the real classes DccReactive / DccAdaptive / GateKeeper in-process:
  reactive  exhaustive tree of all sequences over band-edge representatives (every edge of the code tables and of
            Annex A, -1/0/+1 in 1e-4 units, plus 0 and 1) up to length 4 (quick) / 5 (thorough) from every state and for
            both tables, every node compared with the model's transition table; exhaustive constant runs over the
            float neighbours of every band edge (one ulp ... just under/over half a percent) from every state;
            random long sequences incl. off-grid floats, invalid values, NaN/inf
  adaptive  random parameter sets / CBR sequences, multi-phase histories (drive delta to a bound, keep varying while it
            sits there, then reverse) and long default-parameter histories that reach delta_max; each step compared
            twice: "synced" (model state := exact rational of the real float state before the step) and "free"
  gate      random delta, arrival patterns placed relative to the real t_go, T_on, delta updates; scenarios
            admit -> update_delta x k whose intervals hit the 25 ms / 1 s limits, opening time measured through
            is_open() by bisection; small, epoch-scale, 2^31 and negative clock values; synced + free
Python floats vs exact rationals: values relative 1e-9 of the quantity computed (gate: of the closed interval, plus a few
ulp of the clock value); decisions exactly unless the model-reported rational margin is below the rounding of the
threshold (counted per stream in `tolerance_skips.*`).
Oracle: independent transcription (below) of Annex A, clause 5.4 (1)-(6), B.1/B.2 applied to the REAL outputs;
for reactive traces additionally the Lean `Spec.reactiveHolds` through the driver.
Known findings (pinned by unit tests, dual-variant theorems): C19-KF1 gate opens up to `_T_EPSILON` = 1 ns early;
C19-KF2 Table A.1 Active 3 / Restrictive edge at 60 % instead of 65 %.
"""
from __future__ import annotations

import copy
import math
from fractions import Fraction as F

from common import Infra, corpus

import flexstack.management.dcc_reactive as R
import flexstack.management.dcc_adaptive as A

MODULES = ["Props.C19"]
DRIVERS = ["Dcc"]
TRUSTED = [
    "abstraction of a float CBR x to the 1e-4 cell k (k/1e4 <= x < (k+1)/1e4, k itself when x is the double of k/1e4; "
    "ceil for x > 1): exact for every comparison of the reactive code because gen_dcc.py refuses table values that are "
    "not doubles of grid points",
    "modelled rather than verified: IEEE-754 double arithmetic of DccAdaptive/GateKeeper (model and oracle use exact "
    "rationals of the same float inputs; values compared with relative tolerance 1e-9; gate decisions within a few ulp of "
    "the clock value of t_go are not judged - at Unix-epoch clock values that is about 1 us)",
    "Annex A / clause 5.4 / Annex B numbers in FlexModel/Dcc/Spec.lean and in this module were typed from the builder's "
    "knowledge of TS 102 687 V1.2.1 (no network access to the PDF) - provenance in design_notes/C19.md; this includes the "
    "65 % edge of Table A.1 on which known finding C19-KF2 rests",
    "gateEps in Generated/Dcc.lean is measured by bisection on is_open() for four schedules (gen_dcc.measured_gate_eps)",
]
ASSUMPTIONS = [
    "DccReactive starts in RELAXED and `state` is only written by update(); GateKeeper is constructed with delta != 0; "
    "the public dataclass fields of DccAdaptive (parameters, delta, cbr_its_s) are not written from outside",
    "input space = finite real numbers: CBR values (local AND global) in [0,1] for the claims about CBR_ITS-S and delta "
    "(out-of-range local values: rejected, checked; out-of-range or non-finite GLOBAL values are accepted by the code "
    "and are outside the property's 'CBR sequences over [0,1]': nothing claimed, NaN there poisons cbr_its_s for good); "
    "gate times / T_on / delta_new finite (NaN passes `x <= 0.0` and leaves t_go = NaN, gate closed for ever: outside)",
    "gate clock values |t| <= 1e10 s (one ulp <= 2 us); at |t| ~ 1e17 `t + interval == t` and the gate no longer closes",
]

REL = 1e-9
REL_G = 1e-12       # gate: relative to the closed interval (double rounding is ~1e-16; 1e-9 of 1 s would hide C19-KF1's 1 ns)
INF = float("inf")
NAN = float("nan")

# ----------------------------------------------------------------------------------------------------------------
# Independent oracle data (typed from TS 102 687 V1.2.1, not read from the code)
# ----------------------------------------------------------------------------------------------------------------
# Both tables of Annex A have the same CBR column (< 30 %, 30-39 %, 40-49 %, 50-65 %, > 65 %).  The repository's
# _TABLE_A1 uses 60 % for the last edge: known finding C19-KF2.
ANNEX = {   # a2? -> (lower CBR edge of Active1..Restrictive in 1e-4, rate Hz, T_off ms) per state
    False: ([3000, 4000, 5000, 6500], [F(10), F(5), F(5, 2), F(2), F(1)], [100, 200, 400, 500, 1000]),
    True: ([3000, 4000, 5000, 6500], [F(20), F(10), F(5), F(4), F(1)], [50, 100, 200, 250, 1000]),
}
A2_MAX_TON_US = 500      # Annex A: Table A.2 applies for T_on <= 500 us, Table A.1 up to 1 ms
TABLE3 = dict(alpha=F(16, 1000), beta=F(12, 10000), cbr_target=F(68, 100), delta_max=F(3, 100), delta_min=F(6, 10000),
              delta_up_max=F(5, 10000), delta_down_max=F(-25, 100000))
G_MIN, G_MAX = F(25, 1000), F(1)
KF1_EPS = F(1, 10**9)          # signature of C19-KF1: opening at most 1 ns before t_go
KF2_REGION = (6000, 6500)      # signature of C19-KF2: Table A.1, CBR cell in [60 %, 65 %)


def cell(x):
    """float CBR -> 1e-4 cell (see TRUSTED); None for NaN/inf"""
    if x != x or x in (INF, -INF):
        return None
    fr = F(x) * 10000
    k = round(fr)
    if float(F(k, 10000)) == x:
        return int(k)
    return math.ceil(fr) if x > 1.0 else math.floor(fr)


def band(a2, k):
    return sum(1 for e in ANNEX[a2][0] if e <= k)


def rs(x):
    """exact rational of a float as the driver's token"""
    fr = F(x)
    return f"{fr.numerator}/{fr.denominator}"


def parse_rat(tok):
    if tok == "-":
        return None
    n, _, d = tok.partition("/")
    return F(int(n), int(d or 1))


def close(real, model, rel=REL):
    """real float vs model Fraction"""
    if real is None or model is None:
        return real is None and model is None
    if real != real or real in (INF, -INF):
        return False
    return abs(F(real) - model) <= rel * max(abs(model), abs(F(real))) + F(1, 10**15)


class Batch:
    """collects driver lines of all streams so that the Lean driver is started once per run"""

    def __init__(self):
        self.lines, self.parts = [], []

    def add(self, lines, callback):
        if lines:
            self.parts.append((len(self.lines), len(lines), callback))
            self.lines += lines

    def flush(self, ctx):
        if not self.lines or not ctx.model_ok:
            return
        out = ctx.model("Dcc", self.lines)
        for start, n, cb in self.parts:
            cb(out[start:start + n])
        self.lines, self.parts = [], []


# ----------------------------------------------------------------------------------------------------------------
# Reactive: real runner, oracle
# ----------------------------------------------------------------------------------------------------------------
def _num(v, unit=1):
    fr = F(v) * unit
    return str(fr.numerator) if fr.denominator == 1 else f"{fr.numerator}/{fr.denominator}"


_OUT_CACHE = {}


def real_r_update(obj, x):
    """one canonical line for update(x) on the real object (same shape as the driver's `r upd`)"""
    try:
        o = obj.update(x)
    except Exception as e:   # noqa: BLE001 — mapped to a small enum
        return type(e).__name__, None
    try:
        key = (o.state.value, o.packet_rate_hz, o.t_off_ms)
        ent = _OUT_CACHE.get(key)
        if ent is None:
            st = int(key[0])
            ent = (f"ok {st} {_num(key[1], 1000)} {_num(key[2])}", (st, F(key[1]), F(key[2])))
            _OUT_CACHE[key] = ent
        stored = obj.state.value
    except Exception as e:   # noqa: BLE001
        return "bad-output:" + type(e).__name__, None
    return ent[0], ent[1] + (stored,)


def new_reactive(t_on, start):
    """real object in state `start` (driven there through the API; attribute write only as a fallback)"""
    obj = R.DccReactive(t_on_max_us=t_on)
    for _ in range(8):
        if obj.state.value == start:
            break
        obj.update(1.0 if obj.state.value < start else 0.0)
    if obj.state.value != start:
        obj.state = R.DccState(start)
    return obj


def judge_r(a2, js, k, x, line, out):
    """incremental oracle. js = (state, last_k, runlen); returns (js', [(kind, text)]).
    "constant input" is read at the resolution of the Annex A tables: consecutive inputs in the same 1e-4 cell"""
    s, last_k, runlen = js
    bad = []
    valid = k is not None and 0 <= k <= 10000
    if not valid:
        if line != "ValueError":
            bad.append(("reject", f"CBR {x!r} outside [0,1] not rejected with ValueError: {line}"))
        return js, bad
    if out is None:
        bad.append(("accept", f"CBR {x!r} in [0,1] not evaluated: {line}"))
        return js, bad
    st, rate, toff, stored = out
    if stored != st:
        bad.append(("stored", f"returned state {st} but stored state {stored}"))
    if not (0 <= st <= 4):
        bad.append(("state", f"state {st} outside 0..4"))
        return (st, k, 1), bad
    if abs(st - s) > 1:
        bad.append(("adjacency", f"state moved {s} -> {st} in one evaluation (CBR {x!r})"))
    _, rates, toffs = ANNEX[a2]
    if rate != rates[st] or toff != toffs[st]:
        bad.append(("row", f"state {st} output rate {float(rate)} Hz / T_off {float(toff)} ms, Annex A {float(rates[st])} Hz / {toffs[st]} ms"))
    runlen = runlen + 1 if (last_k is not None and k == last_k) else 1
    if runlen >= 4 and st != band(a2, k):
        kind = "convergence-kf2" if is_kf2(a2, k, st) else "convergence"
        bad.append((kind, f"constant CBR {x!r} for {runlen} evaluations: state {st}, Annex A band {band(a2, k)}"))
    return (st, k, runlen), bad


def is_kf2(a2, k, st):
    """signature of C19-KF2: Table A.1, CBR cell in [60 %, 65 %), the machine sits in RESTRICTIVE (4) where the band's
    state is ACTIVE_3 (3)"""
    return (not a2) and k is not None and KF2_REGION[0] <= k < KF2_REGION[1] and st == 4


def classify_r(a2, k, kind):
    return "C19-KF2" if kind == "convergence-kf2" else None


def run_reactive_case(case):
    """real code + oracle on one saved case; returns (problems[(kind,text,k)], trace for the Lean Spec, lines)"""
    t_on, start, xs = case["t_on"], case.get("start", 0), case["cbr"]
    a2 = t_on <= A2_MAX_TON_US
    obj = new_reactive(t_on, start)
    js = (start, None, 0)
    probs, trace, lines = [], [], []
    for x in xs:
        k = cell(x)
        line, out = real_r_update(obj, x)
        lines.append(line)
        js, bad = judge_r(a2, js, k, x, line, out)
        probs += [(kind, text, k) for kind, text in bad]
        if out is not None and k is not None:
            trace.append((k, out))
    return probs, trace, lines


def spec_line(a2, s0, trace):
    evs = []
    for k, (st, rate, toff, _) in trace:
        r, t = rate * 1000, toff
        if r.denominator != 1 or t.denominator != 1 or r < 0 or t < 0:
            return None
        evs.append(f"{k}:{st}:{r.numerator}:{t.numerator}")
    return f"r spec {1 if a2 else 0} {s0} " + " ".join(evs)


def code_edges():
    ks = {0, 10000}
    try:
        for tbl in (R._TABLE_A1, R._TABLE_A2):
            for cfg in tbl.values():
                for v in (cfg.cbr_min, cfg.cbr_max):
                    k = cell(float(v))
                    if k is not None and 0 <= k <= 10000:
                        ks.add(k)
    except Exception:   # noqa: BLE001 — tables renamed/restructured: fall back to the Annex A edges
        pass
    for a2 in (False, True):
        ks.update(ANNEX[a2][0])
    return sorted(ks)


def representatives():
    reps = set()
    for e in code_edges():
        for d in (-1, 0, 1):
            if 0 <= e + d <= 10000:
                reps.add(e + d)
    return sorted(reps)


def report_r(ctx, a2, t_on, start, path, kind, text, k):
    ctx.violation(f"reactive[{'A2' if a2 else 'A1'}] {text}",
                  {"kind": "reactive", "t_on": t_on, "start": start, "cbr": list(path)}, finding=classify_r(a2, k, kind))


def reactive_tree(ctx, depth):
    """every sequence over the representatives up to `depth`, from every state, both tables"""
    reps = representatives()
    fl = [(k, k / 10000) for k in reps]
    invalid = [(-1, -1 / 10000), (10001, 10001 / 10000)]
    table = {}
    if ctx.model_ok:
        lines, keys = [], []
        for a2, t_on in ((False, 1000), (True, 500)):
            for s in range(5):
                for k, _ in fl + invalid:
                    lines += [f"r new {t_on}", f"r set {s}", f"r upd {k}"]
                    keys.append((a2, s, k))
        out = ctx.model("Dcc", lines)
        for i, key in enumerate(keys):
            table[key] = out[3 * i + 2]
    nodes = 0
    for a2, t_on in ((False, 1000), (True, 500)):
        for s0 in range(5):
            root = new_reactive(t_on, s0)
            if root.state.value != s0:
                ctx.violation(f"state {s0} not reachable", {"kind": "reactive", "t_on": t_on, "start": s0, "cbr": []})
                continue
            stack = [(root, (s0, None, 0), ())]
            while stack:
                obj, js, path = stack.pop()
                for k, x in invalid:
                    c = copy.copy(obj)
                    line, out = real_r_update(c, x)
                    nodes += 1
                    _, bad = judge_r(a2, js, k, x, line, out)
                    for kind, text in bad:
                        report_r(ctx, a2, t_on, s0, path + (x,), kind, text, k)
                    if c.state.value != js[0]:
                        report_r(ctx, a2, t_on, s0, path + (x,), "reject", f"rejected CBR {x!r} changed the state", k)
                    if table and table[(a2, js[0], k)] != line:
                        ctx.mismatch("reactive.tree", {"t_on": t_on, "start": s0, "cbr": list(path + (x,))}, line, table[(a2, js[0], k)])
                for k, x in fl:
                    c = copy.copy(obj)
                    line, out = real_r_update(c, x)
                    nodes += 1
                    js2, bad = judge_r(a2, js, k, x, line, out)
                    for kind, text in bad:
                        report_r(ctx, a2, t_on, s0, path + (x,), kind, text, k)
                    if table and table[(a2, js[0], k)] != line:
                        ctx.mismatch("reactive.tree", {"t_on": t_on, "start": s0, "cbr": list(path + (x,))}, line, table[(a2, js[0], k)])
                    if out is not None and len(path) + 1 < depth and 0 <= js2[0] <= 4:
                        stack.append((c, js2, path + (x,)))
    ctx.evals(nodes)
    ctx.cover("reactive.tree.nodes", nodes)
    ctx.cover("reactive.tree.representatives", len(reps))
    ctx.cover("reactive.tree.depth", depth)
    for k in reps:
        ctx.nontrivial(("rep", k))
    ctx.extra["reactive_representatives_1e-4"] = reps
    return nodes


NEIGHBOUR_OFFSETS = (1e-15, 1e-12, 1e-9, 1e-6, 1e-4, 1e-3, 2.5e-3, 4.9e-3, 4.99e-3, 5e-3, 5.01e-3, 5.1e-3, 9.9e-3)


def edge_neighbours():
    """float neighbours of every band edge (code tables and Annex A): the edge itself, one ulp either side, and the
    offsets above either side - down to the granularity of the float and up to a percent (whole-percent and
    half-percent rounding of the input land inside this set)"""
    xs = set()
    for k in code_edges():
        e = k / 10000
        xs.update((e, math.nextafter(e, -INF), math.nextafter(e, INF)))
        for d in NEIGHBOUR_OFFSETS:
            xs.update((e - d, e + d))
    return sorted(x for x in xs if 0.0 <= x <= 1.0)


def reactive_neighbours(ctx, batch=None, runlen=5):
    """every float neighbour of every band edge as a CONSTANT input for `runlen` evaluations, from every start state,
    both tables: convergence within four evaluations + Annex A row, judged by the oracle; compared with the model"""
    xs = edge_neighbours()
    lines, idx = [], []
    n = 0
    for a2, t_on in ((False, 1000), (True, 500)):
        for s0 in range(5):
            for x in xs:
                case = {"kind": "reactive", "t_on": t_on, "start": s0, "cbr": [x] * runlen}
                probs, _, real_lines = run_reactive_case(case)
                n += runlen
                for kind, text, k in probs:
                    report_r(ctx, a2, t_on, s0, case["cbr"], kind, text, k)
                    ctx.cover("reactive.oracle." + kind)
                if batch is not None and ctx.model_ok:
                    lines += [f"r new {t_on}", f"r set {s0}"] + [f"r upd {cell(x)}"] * runlen
                    idx += [None, None] + [(case, rl) for rl in real_lines]
    ctx.evals(n)
    ctx.cover("reactive.neighbours.inputs", len(xs))
    ctx.cover("reactive.neighbours.evaluations", n)

    def finish(out):
        for ent, got in zip(idx, out):
            if ent is not None and got != ent[1]:
                ctx.mismatch("reactive.neighbours", {"t_on": ent[0]["t_on"], "start": ent[0]["start"], "cbr": ent[0]["cbr"]}, ent[1], got)
    if batch is not None:
        batch.add(lines, finish)


def check_table_selection(ctx, batch=None):
    """Annex A: Table A.2 is for T_on <= 500 us.  Observed through the API only: the rate reported in RELAXED
    (10 Hz = Table A.1, 20 Hz = Table A.2); the model's `r new` reply is compared too"""
    tons = (-1, 0, 1, 250, 499, 500, 501, 999, 1000, 1001, 10**6)
    lines = []
    for t_on in tons:
        out = R.DccReactive(t_on_max_us=t_on).update(0.0)
        want = ANNEX[t_on <= A2_MAX_TON_US][1][0]
        ctx.evals(1)
        if F(out.packet_rate_hz) != want or out.state.value != 0:
            ctx.violation(f"reactive: t_on_max_us={t_on} reports {out.packet_rate_hz} Hz in RELAXED, Annex A table for this T_on gives {float(want)} Hz",
                          {"kind": "reactive", "t_on": t_on, "start": 0, "cbr": [0.0]})
        lines.append(f"r new {t_on}")

    def finish(out):
        for t_on, got in zip(tons, out):
            want = f"ok {1 if t_on <= A2_MAX_TON_US else 0}"
            if got != want:
                ctx.mismatch("reactive.table-selection", {"t_on": t_on}, want, got)
    if batch is not None and ctx.model_ok:
        batch.add(lines, finish)


def random_cbr(ctx, edges):
    r = ctx.rng.random()
    if r < 0.30:
        return ctx.rng.choice(edges) / 10000 + ctx.rng.choice((-1, 0, 0, 1)) / 10000
    if r < 0.40:
        e = ctx.rng.choice(edges) / 10000
        return math.nextafter(e, ctx.rng.choice((-INF, INF)))
    if r < 0.50:
        e = ctx.rng.choice(edges) / 10000
        return min(1.0, max(0.0, e + ctx.rng.choice((-1, 1)) * ctx.rng.choice(NEIGHBOUR_OFFSETS)))
    if r < 0.70:
        return ctx.rng.randrange(0, 10001) / 10000
    if r < 0.93:
        return ctx.rng.random()
    return ctx.rng.choice((-1e-9, -0.0001, -1.0, 1.0000000000000002, 1.0001, 2.0, NAN, INF, -INF, -0.0, 5e-324))


def reactive_random(ctx, n_seq, batch=None):
    edges = code_edges()
    cases = []
    for _ in range(n_seq):
        t_on = ctx.rng.choice((0, 1, 250, 499, 500, 501, 999, 1000, 1001, 10**6, -1))
        xs = []
        n = ctx.rng.randrange(5, 160)
        while len(xs) < n:
            x = random_cbr(ctx, edges)
            xs += [x] * ctx.rng.choice((1, 1, 1, 2, 4, 5, 6))
        cases.append({"kind": "reactive", "t_on": t_on, "start": 0, "cbr": xs[:n]})
    lines, idx = [], []
    for ci, case in enumerate(cases):
        a2 = case["t_on"] <= A2_MAX_TON_US
        probs, trace, real_lines = run_reactive_case(case)
        ctx.evals(len(case["cbr"]))
        for kind, text, k in probs:
            report_r(ctx, a2, case["t_on"], 0, case["cbr"], kind, text, k)
            ctx.cover("reactive.oracle." + kind)
        for ln in real_lines:
            ctx.cover("reactive.out." + ln.split()[0])
        ctx.nontrivial(("rseq", case["t_on"], [cell(x) for x in case["cbr"]]))
        ctx.sample("reactive.random", {"t_on": case["t_on"], "cbr": case["cbr"][:12], "real": real_lines[:12]}, 1)
        if batch is not None and ctx.model_ok:
            lines.append(f"r new {case['t_on']}")
            idx.append((ci, "new", None, f"ok {1 if a2 else 0}"))
            for x, rl in zip(case["cbr"], real_lines):
                k = cell(x)
                if k is None:   # NaN/inf have no cell: judged by the oracle only
                    ctx.cover("reactive.model-skip.nan-inf")
                    continue
                lines.append(f"r upd {k}")
                idx.append((ci, "upd", x, rl))
            sl = spec_line(a2, 0, trace)
            if sl is not None:
                lines.append(sl)
                idx.append((ci, "spec", None, "0" if any(kind in ("adjacency", "row", "convergence", "convergence-kf2", "state") for kind, _, _ in probs) else "1"))
    def finish(out):
        for (ci, what, x, want), got in zip(idx, out):
            if got != want:
                ctx.mismatch("reactive.random" if what == "upd" else "reactive.spec-vs-oracle",
                             {"t_on": cases[ci]["t_on"], "cbr": cases[ci]["cbr"], "at": x}, want, got)
    if batch is not None:
        batch.add(lines, finish)


# ----------------------------------------------------------------------------------------------------------------
# Adaptive: real runner, oracle
# ----------------------------------------------------------------------------------------------------------------
PNAMES = ("alpha", "beta", "cbr_target", "delta_max", "delta_min", "delta_up_max", "delta_down_max")


def limeric_spec(p, its, delta, c, cp, positive=None):
    """clause 5.4 equations (1)-(6) on exact rationals; returns (its', delta', diff).
    `positive` overrides the sign decision of step 2 (used only inside the tolerance band |diff| <= 1e-9)"""
    its = F(1, 2) * its + F(1, 2) * ((c + cp) / 2)                                        # (1)
    diff = p["cbr_target"] - its
    if (diff > 0) if positive is None else positive:
        off = min(p["beta"] * diff, p["delta_up_max"])                                    # (2)
    else:
        off = max(p["beta"] * diff, p["delta_down_max"])                                  # (3)
    delta = (1 - p["alpha"]) * delta + off                                                # (4)
    if delta > p["delta_max"]:
        delta = p["delta_max"]                                                            # (5)
    if delta < p["delta_min"]:
        delta = p["delta_min"]                                                            # (6)
    return its, delta, diff


def finite(x):
    return x == x and x not in (INF, -INF)


def run_adaptive_case(case):
    """real code + oracle. returns (problems, records) ; records[i] = (pre_state, args, result_line, post_state)"""
    pv = case["params"]
    params = A.DccAdaptiveParameters(**dict(zip(PNAMES, pv)))
    alg = A.DccAdaptive(parameters=params)
    pf = {n: F(v) for n, v in zip(PNAMES, pv)}
    probs, recs = [], []
    if alg.delta != pv[4] or alg.cbr_its_s != 0.0:
        probs.append(("init", f"initial (cbr_its_s, delta) = ({alg.cbr_its_s}, {alg.delta}), expected (0, delta_min)"))
    for step in case["steps"]:
        l, lp, g, gp = step
        pre = (alg.cbr_its_s, alg.delta)
        try:
            ret = alg.update(l, lp, g, gp)
            line = "ok"
        except Exception as e:   # noqa: BLE001
            ret = None
            line = type(e).__name__ + (":" + str(e).split(" ")[0] if isinstance(e, ValueError) else "")
        post = (alg.cbr_its_s, alg.delta)
        recs.append((pre, step, line, post, ret))
        bad_local = any((v != v) or not (0.0 <= v <= 1.0) for v in (l, lp))
        if bad_local:
            if not line.startswith("ValueError"):
                probs.append(("reject", f"local CBR ({l!r}, {lp!r}) outside [0,1] accepted: {line}"))
            elif post != pre and not (post[0] != post[0] and pre[0] != pre[0]):
                probs.append(("reject", f"rejected call changed the state {pre} -> {post}"))
            continue
        if line != "ok":
            probs.append(("accept", f"valid local CBR ({l!r}, {lp!r}) raised {line}"))
            continue
        if ret != post[1]:
            probs.append(("return", f"update() returned {ret!r}, stored delta {post[1]!r}"))
        use_g = g is not None and gp is not None
        c, cp = (g, gp) if use_g else (l, lp)
        if not all(finite(v) for v in (c, cp, pre[0], pre[1])):
            continue
        e_its, e_delta, diff = limeric_spec(pf, F(pre[0]), F(pre[1]), F(c), F(cp))
        ok = close(post[0], e_its) and close(post[1], e_delta)
        if not ok:
            if abs(diff) <= REL:   # decision of step 2 inside the tolerance band: the other branch is accepted too
                _, e2, _ = limeric_spec(pf, F(pre[0]), F(pre[1]), F(c), F(cp), positive=not (diff > 0))
                if close(post[0], e_its) and close(post[1], e2):
                    recs[-1] = recs[-1] + ("skip",)
                    continue
            probs.append(("equation", f"(cbr_its_s, delta) = {post}, clause 5.4 gives ({float(e_its)!r}, {float(e_delta)!r}) from {pre} with {step}"))
        if pf["delta_min"] <= pf["delta_max"] and not (pv[4] <= post[1] <= pv[3]):
            probs.append(("bounds", f"delta {post[1]!r} outside [{pv[4]!r}, {pv[3]!r}]"))
    return probs, recs


def random_params(ctx, valid_only=False):
    r = ctx.rng.random()
    if valid_only:
        r *= 0.8
    u = ctx.rng.uniform
    if r < 0.25:
        d = A.DccAdaptiveParameters()
        return [getattr(d, n) for n in PNAMES]
    if r < 0.80:
        lo = u(1e-5, 0.02)
        hi = lo + ctx.rng.choice((0.0, u(0, 0.05)))
        return [u(0, 0.2), u(0, 0.01), u(0.05, 0.95), hi, lo, u(0, 2e-3), -u(0, 2e-3)]
    lo, hi = u(-0.01, 0.05), u(-0.01, 0.05)   # odd sets: any sign, alpha > 1, delta_min > delta_max possible
    return [u(-0.5, 1.5), u(-0.01, 0.02), u(-0.2, 1.2), hi, lo, u(-1e-3, 2e-3), u(-2e-3, 1e-3)]


def random_steps(ctx, params, n):
    tgt = params[2]
    steps = []
    mode = ctx.rng.choice(("rand", "rand", "high", "low", "target", "mixed"))
    for _ in range(n):
        r = ctx.rng.random()
        if mode == "high":
            l = lp = ctx.rng.choice((1.0, 0.95, ctx.rng.uniform(0.8, 1.0)))
        elif mode == "low":
            l = lp = ctx.rng.choice((0.0, 0.01, ctx.rng.uniform(0, 0.1)))
        elif mode == "target" and 0 <= tgt <= 1:
            l = lp = min(1.0, max(0.0, tgt + ctx.rng.choice((0.0, 1e-12, -1e-12, 1e-7, -1e-7, 1e-3))))
        else:
            l, lp = ctx.rng.random(), ctx.rng.random()
        if r < 0.06:
            bad = ctx.rng.choice((-1e-9, -0.5, 1.0000000000000002, 1.5, NAN, INF, -INF))
            if ctx.rng.random() < 0.5:
                l = bad
            else:
                lp = bad
        elif r < 0.12:
            l, lp = ctx.rng.choice(((0.0, 1.0), (1.0, 1.0), (0.0, 0.0), (-0.0, 1.0)))
        g = gp = None
        r2 = ctx.rng.random()
        if r2 < 0.15:
            g, gp = ctx.rng.random(), ctx.rng.random()
        elif r2 < 0.20:
            g = ctx.rng.random()
        elif r2 < 0.25:
            gp = ctx.rng.random()
        elif r2 < 0.28:
            g, gp = ctx.rng.uniform(-0.5, 1.5), ctx.rng.uniform(-0.5, 1.5)   # not validated by the code (property: local only)
        steps.append([l, lp, g, gp])
    return steps


def ors(x):
    return "-" if x is None else rs(x)


def level_steps(ctx, lo, hi, n, style):
    """n evaluations with the CBR between lo and hi: constant / ramp lo->hi / alternating / random"""
    out = []
    for i in range(n):
        if style == "const":
            v = lo
        elif style == "ramp":
            v = lo + (hi - lo) * i / max(1, n - 1)
        elif style == "osc":
            v = hi if i % 2 else lo
        else:
            v = ctx.rng.uniform(lo, hi)
        v = min(1.0, max(0.0, v))
        lp = v if ctx.rng.random() < 0.6 else min(1.0, max(0.0, v + ctx.rng.uniform(-0.05, 0.05)))
        if ctx.rng.random() < 0.1:       # the same values through the global pair (local pair valid but different)
            out.append([ctx.rng.random(), ctx.rng.random(), v, lp])
        else:
            out.append([v, lp, None, None])
    return out


def phased_steps(ctx, params):
    """multi-phase history: (1) hold the CBR on one side of the target long enough to drive delta to its bound,
    (2) keep varying the CBR on that side while delta sits at the bound, (3) jump to the other side, (4) sometimes back.
    What the filter state did during (2) only shows in the first evaluations of (3)."""
    t = min(1.0, max(0.0, params[2]))
    up = ctx.rng.random() < 0.6 or t < 0.05     # True: CBR above target -> delta at delta_min (its initial value)
    if up and t > 0.97:
        up = False
    if up:
        side = (min(1.0, t + 0.02), 1.0)
        other = (0.0, max(0.0, t - ctx.rng.choice((0.2, 0.34, 0.5))))
    else:
        side = (0.0, max(0.0, t - 0.05))
        other = (min(1.0, t + ctx.rng.choice((0.02, 0.1, 0.3))), 1.0)
    n1 = ctx.rng.choice((3, 6, 12, 40, 120, 230))
    n2 = ctx.rng.choice((3, 8, 20, 60))
    n3 = ctx.rng.choice((3, 6, 12))
    steps = level_steps(ctx, side[0], side[0] + (side[1] - side[0]) * 0.3 * ctx.rng.random(), n1, ctx.rng.choice(("const", "rand")))
    steps += level_steps(ctx, side[0], side[1], n2, ctx.rng.choice(("ramp", "osc", "rand", "const")))
    lvl = ctx.rng.uniform(*other) if ctx.rng.random() < 0.5 else ctx.rng.choice(other)
    steps += level_steps(ctx, lvl, lvl, n3, "const")
    if ctx.rng.random() < 0.4:
        steps += level_steps(ctx, side[0], side[1], ctx.rng.choice((2, 5, 30)), "rand")
        steps += level_steps(ctx, other[0], other[1], ctx.rng.choice((2, 5)), "rand")
    return steps


FREE_STEPS = 150     # the free-running model carries exact rationals whose size grows with every step


def adaptive_random(ctx, n_seq, batch=None, phased=False):
    for _ in range(n_seq):
        params = random_params(ctx, valid_only=phased)
        if phased:
            steps = phased_steps(ctx, params)
        else:
            steps = random_steps(ctx, params, ctx.rng.randrange(5, 90))
        case = {"kind": "adaptive", "params": params, "steps": steps}
        probs, recs = run_adaptive_case(case)
        ctx.evals(len(recs))
        for kind, text in probs:
            ctx.violation("adaptive: " + text, case)
            ctx.cover("adaptive.oracle." + kind)
        at_bound = None
        for rec in recs:
            ctx.cover("adaptive.out." + rec[2].split(":")[0])
            if len(rec) > 5:
                ctx.cover("tolerance_skips")
                ctx.cover("tolerance_skips.adaptive.oracle")
            if rec[2] == "ok":
                now = "min" if rec[3][1] == params[4] else ("max" if rec[3][1] == params[3] else None)
                if now:
                    ctx.cover("adaptive.delta-at-" + now)
                elif at_bound:
                    ctx.cover("adaptive.delta-leaves-" + at_bound)
                at_bound = now
        ctx.cover("adaptive.histories." + ("phased" if phased else "random"))
        ctx.counts["adaptive.longest-history"] = max(ctx.counts.get("adaptive.longest-history", 0), len(recs))
        ctx.nontrivial(("aseq", [rs(v) for v in params], len(recs)))
        ctx.cover("adaptive.params." + ("min<=max" if params[4] <= params[3] else "min>max"))
        ctx.sample("adaptive.random", {"params": params, "steps": case["steps"][:3], "real": [[r[2], list(r[3])] for r in recs[:3]]}, 1)
        if batch is None or not ctx.model_ok:
            continue
        head = "a new " + " ".join(rs(v) for v in params)
        lines, idx = [head], [("new", None)]
        for i, (pre, step, line, post, *_r) in enumerate(recs):      # synced pass
            if not all(finite(v) for v in step if v is not None) or not all(finite(v) for v in pre):
                continue
            lines += [f"a set {rs(pre[0])} {rs(pre[1])}", "a upd " + " ".join(ors(v) for v in step)]
            idx += [("set", i), ("sync", i)]
        lines.append(head)
        idx.append(("new", None))
        for i, (pre, step, line, post, *_r) in enumerate(recs[:FREE_STEPS]):      # free pass
            if not all(finite(v) for v in step if v is not None):
                continue
            lines.append("a upd " + " ".join(ors(v) for v in step))
            idx.append(("free", i))
        batch.add(lines, lambda out, a=(params, case, recs, idx): compare_adaptive(ctx, *a, out))


def compare_adaptive(ctx, params, case, recs, idx, out):
    alive = True
    for (what, i), got in zip(idx, out):
        if what in ("new", "set"):
            if not got.startswith("ok"):
                ctx.mismatch("adaptive.proto", what, "ok", got)
            continue
        pre, step, line, post = recs[i][:4]
        tok = got.split()
        if what == "free" and not alive:
            continue
        if tok[0] != "ok" or line != "ok":
            if got != line:
                ctx.mismatch("adaptive." + what, {"params": params, "steps": case["steps"][:i + 1]}, line, got)
            continue
        m_its, m_delta, m_diff = parse_rat(tok[1]), parse_rat(tok[2]), parse_rat(tok[3])
        if close(post[0], m_its) and close(post[1], m_delta):
            continue
        if abs(m_diff) <= REL:        # step-2 decision inside the tolerance band
            ctx.cover("tolerance_skips")
            ctx.cover("tolerance_skips.adaptive." + what)
            if what == "free":
                alive = False
            continue
        ctx.mismatch("adaptive." + what, {"params": params, "steps": case["steps"][:i + 1]},
                     [post[0], post[1]], [float(m_its), float(m_delta)])


# ----------------------------------------------------------------------------------------------------------------
# Gate keeper: real runner, oracle
# ----------------------------------------------------------------------------------------------------------------
def gstate(gk):
    return (gk._delta, gk._t_pg, gk._t_go)


def real_gate_op(gk, op):
    kind = op[0]
    try:
        if kind == "open":
            return "1" if gk.is_open(op[1]) else "0"
        if kind == "adm":
            return "admitted" if gk.admit_packet(op[1], op[2]) else "rejected"
        if kind == "upd":
            gk.update_delta(op[1], op[2])
            return "done"
    except Exception as e:   # noqa: BLE001
        return type(e).__name__
    raise Infra(f"unknown gate op {op}")


def slack(*ts):
    """rounding allowance of a float clock value: four ulp of the largest magnitude involved (t_go = fl(t_pg + iv))"""
    return 4 * F(math.ulp(max([abs(float(t)) for t in ts] + [5e-324])))


def gtol(tgo, tpg, *ts):
    """allowance between the rational of B.1/B.2 and the float the code stores: 1e-12 of the closed interval + rounding"""
    return F(REL_G) * (abs(tgo - tpg) if tpg is not None else 1) + slack(tgo, *ts)


def decide_open(tgo, t, tpg=None):
    """B.1/B.2 exactly: open from t_go on (True), closed before (False); None within the rounding allowance of t_go"""
    if tgo is None:
        return True
    sl = gtol(tgo, tpg, t)
    if F(t) >= tgo + sl:
        return True
    if F(t) < tgo - sl:
        return False
    return None


def early_kind(base, amount, sl):
    """an opening / admission `amount` seconds before the prescribed time: C19-KF1 iff at most 1 ns (+ rounding)"""
    return base + ("-kf1" if amount <= KF1_EPS + sl else "")


def clamp(x):
    return min(max(x, G_MIN), G_MAX)


def close_tgo(real_tgo, real_tpg, spec_tgo, spec_tpg, rel=None):
    """real t_go against the rational of B.1/B.2: relative 1e-12 of the closed interval + rounding of the clock value
    (`rel`: looser relative part for the free-running model, where B.2 multiplies the carried rounding by the delta ratio)"""
    if real_tgo is None or spec_tgo is None:
        return real_tgo is None and spec_tgo is None
    if not finite(real_tgo):
        return False
    extra = F(rel) * abs(spec_tgo - spec_tpg) if rel and spec_tpg is not None else 0
    return abs(F(real_tgo) - spec_tgo) <= gtol(spec_tgo, spec_tpg) + extra


def opening_threshold(gk, lo, hi):
    """smallest float t in (lo, hi] at which is_open(t) is True, by bisection through the API (None if not closed at lo /
    not open at hi)"""
    if gk.is_open(lo) or not gk.is_open(hi):
        return None
    while math.nextafter(lo, hi) < hi:
        mid = lo + (hi - lo) / 2
        if mid <= lo or mid >= hi:
            mid = math.nextafter(lo, hi)
        if gk.is_open(mid):
            hi = mid
        else:
            lo = mid
    return hi


def run_gate_case(case, planner=None):
    """real code + oracle (spec state advanced by B.1/B.2 with the real admission decisions).
    `planner(gk, last_admission, i)` may append ops adaptively (times relative to the real t_go).
    problems: (kind, text); kinds ending in `-kf1` fall under known finding C19-KF1."""
    d0 = case["delta"]
    gk = A.GateKeeper(delta=d0)
    ops = list(case["ops"])
    sd, stpg, stgo = F(d0), None, None
    last_adm = None
    probs, recs = [], []
    i = 0
    while True:
        if planner is not None and i >= len(ops):
            nxt = planner(gk, last_adm, i)
            if nxt is None:
                break
            ops.append(nxt)
        if i >= len(ops):
            break
        op = ops[i]
        i += 1
        pre = gstate(gk)
        line = real_gate_op(gk, op)
        post = gstate(gk)
        recs.append((pre, op, line, post))
        kind, t = op[0], op[1]
        if d0 == 0:
            continue   # outside the assumptions: correspondence only
        exp = decide_open(stgo, t, stpg)
        tol = gtol(stgo, stpg, t) if stgo is not None else F(0)
        if exp is None:
            recs[-1] = recs[-1] + ("unjudged",)
        if kind == "open":
            if exp is not None and line != ("1" if exp else "0"):
                k = early_kind("open-early", stgo - F(t), tol) if line == "1" else "open-late"
                probs.append((k, f"is_open({t!r}) = {line} with t_go(B.1/B.2) = {float(stgo)!r} ({float(stgo - F(t))!r} s before it)"))
            if last_adm is not None and F(t) >= F(last_adm) + G_MAX + slack(t) and line != "1":
                probs.append(("max-closed", f"still closed at {t!r}, more than 1 s after the admission at {last_adm!r}"))
            if post != pre:
                probs.append(("open", "is_open changed the state"))
        elif kind == "adm":
            ton = op[2]
            if ton <= 0:
                if line != "ValueError" or post != pre:
                    probs.append(("reject", f"admit_packet(t_on={ton!r}) -> {line}, state changed: {post != pre}"))
                continue
            if exp is not None and line != ("admitted" if exp else "rejected"):
                k = early_kind("admit-early", stgo - F(t), tol) if line == "admitted" else "admit-late"
                probs.append((k, f"admit_packet({t!r}) -> {line} with t_go(B.1/B.2) = {float(stgo)!r} ({float(stgo - F(t))!r} s before it)"))
            if last_adm is not None and F(t) >= F(last_adm) + G_MAX + slack(t) and line != "admitted":
                probs.append(("max-closed", f"packet at {t!r} rejected more than 1 s after the admission at {last_adm!r}"))
            if line == "admitted":
                if last_adm is not None:
                    short = G_MIN - (F(t) - F(last_adm))
                    if short > slack(t, last_adm):
                        probs.append((early_kind("spacing", short, slack(t, last_adm)),
                                      f"admissions at {last_adm!r} and {t!r} are {float(F(t) - F(last_adm))!r} s apart (< 25 ms by {float(short)!r} s)"))
                stpg = F(t)
                stgo = stpg + clamp(F(ton) / sd)                                           # (B.1)
                last_adm = t
                if post[1] != t or not close_tgo(post[2], post[1], stgo, stpg):
                    probs.append(("B.1", f"after admission at {t!r} (t_on {ton!r}, delta {float(sd)!r}): t_pg {post[1]!r}, t_go {post[2]!r}; B.1 gives {float(stgo)!r}"))
                else:
                    stgo = F(post[2])      # carry the float the code stored: the next B.2 is judged one step at a time
                # at most one packet per opening: the gate is closed at the admission instant
                again = copy.copy(gk)
                if again.is_open(t) or again.admit_packet(t, ton):
                    probs.append(("one-per-opening", f"gate still open at {t!r} right after admitting a packet"))
            elif line == "rejected":
                if post != pre:
                    probs.append(("admit", "rejected packet changed the state"))
            else:
                probs.append(("admit", f"admit_packet({t!r}, {ton!r}) raised {line}"))
        elif kind == "upd":
            dn = op[2]
            if dn <= 0:
                if line != "ValueError" or post != pre:
                    probs.append(("reject", f"update_delta(delta_new={dn!r}) -> {line}, state changed: {post != pre}"))
                continue
            if line != "done":
                probs.append(("update", f"update_delta({t!r}, {dn!r}) raised {line}"))
                continue
            cands = []
            kf1_window = stgo is not None and exp is False and stgo - F(t) <= KF1_EPS + tol
            if stgo is None or exp is not False or kf1_window:
                cands.append(stgo)                                                         # gate open: only delta changes
            if stgo is not None and exp is not True:
                cands.append(stpg + clamp(sd / F(dn) * (stgo - stpg)))                     # (B.2)
            hit = [c for c in cands if close_tgo(post[2], post[1], c, stpg)]
            if post[0] != dn or post[1] != pre[1] or not hit:
                probs.append(("B.2", f"update_delta({t!r}, {dn!r}) from delta {float(sd)!r}, t_pg {pre[1]!r}, t_go {pre[2]!r} -> t_go {post[2]!r}; "
                                     f"B.2 allows {[None if c is None else float(c) for c in cands]}"))
            else:
                if kf1_window and hit[0] == stgo and len(cands) == 2 and not close_tgo(post[2], post[1], cands[1], stpg):
                    probs.append(("update-kf1", f"update_delta({t!r}) {float(stgo - F(t))!r} s before t_go treated the gate as open (no B.2 rescheduling)"))
                stgo = F(post[2]) if post[2] is not None else None
            sd = F(dn)
        elif kind == "thr":
            pass
        if stpg is not None and stgo is not None and not (G_MIN - gtol(stgo, stpg) <= stgo - stpg <= G_MAX + gtol(stgo, stpg)):
            raise Infra("oracle invariant broken")
        if case.get("measure") and stgo is not None and kind in ("adm", "upd") and line in ("admitted", "done"):
            # the opening time as the API shows it: bisection on is_open between t_pg and t_pg + 1 s (+ rounding)
            probe = copy.copy(gk)
            tau = opening_threshold(probe, float(stpg), float(stpg + G_MAX) + 8 * math.ulp(float(stpg + G_MAX)))
            sl = gtol(stgo, stpg)
            if tau is None:
                probs.append(("threshold", f"gate not closed at t_pg / not open 1 s later (t_pg {float(stpg)!r})"))
            elif F(tau) > stgo + sl:
                probs.append(("open-late", f"gate opens at {tau!r}, B.1/B.2 give t_go = {float(stgo)!r}"))
            elif F(tau) < stgo - sl:
                probs.append((early_kind("open-early", stgo - F(tau), sl), f"gate opens at {tau!r}, {float(stgo - F(tau))!r} s before t_go(B.1/B.2) = {float(stgo)!r}"))
    case = dict(case, ops=ops)
    return probs, recs, case


GATE_BASES = (0.0, 1.7e9, 2.0 ** 31 - 0.01, -1000.0, 86400.0 * 365)


def gate_planner(ctx, n):
    u = ctx.rng.uniform
    r0 = ctx.rng.random()
    base = u(0, 5) if r0 < 0.6 else (u(0, 5000) if r0 < 0.8 else ctx.rng.choice(GATE_BASES) + u(0, 5))
    state = {"t": base}

    def plan(gk, last_adm, i):
        if i >= n:
            return None
        tgo = gk._t_go
        r = ctx.rng.random()
        if tgo is not None and r < 0.45:      # relative to the real opening time
            off = ctx.rng.choice((0.0, 1e-9, -1e-9, 5e-10, -5e-10, 2e-9, -2e-9, 1e-7, -1e-7, -2e-6, 1e-6, -1e-3, 1e-3, -0.01, 0.01, u(-0.05, 0.05)))
            t = tgo + off
            if off == 0.0 and ctx.rng.random() < 0.3:
                t = math.nextafter(tgo, ctx.rng.choice((-INF, INF)))
        elif last_adm is not None and r < 0.60:
            t = last_adm + ctx.rng.choice((1.0, 1.0 + 1e-7, 0.025, 0.025 - 5e-10, 0.025 - 2e-6, 0.0249, 0.0, 1e-4, 0.999, 1.5))
        else:
            t = state["t"] + ctx.rng.choice((0.0, u(0, 0.03), u(0, 0.3), u(0, 2.0)))
        if ctx.rng.random() < 0.9:
            state["t"] = max(state["t"], t)
        k = ctx.rng.random()
        if k < 0.5:
            ton = ctx.rng.choice((u(1e-5, 5e-3), u(1e-5, 5e-3), 0.001, 0.0005, 1e-6, 0.05))
            if ctx.rng.random() < 0.05:
                ton = ctx.rng.choice((0.0, -0.001, -0.0))
            return ["adm", t, ton]
        if k < 0.75:
            dn = ctx.rng.choice((u(1e-4, 0.05), u(1e-4, 0.05), gk._delta, gk._delta * 2, gk._delta / 2, 0.0006, 0.03, 1e-6, 1.0))
            if ctx.rng.random() < 0.06:
                dn = ctx.rng.choice((0.0, -0.01, -0.0))
            return ["upd", t, dn]
        return ["open", t]
    return plan


def limited_scenario(ctx):
    """admit -> update_delta x k (k = 1..3) inside the closed period, with T_on/delta and the rescaled intervals chosen
    below 25 ms, between, and above 1 s, so that B.2 starts from a LIMITED interval; then probes around the result.
    The opening time is additionally measured through is_open() after every step (`measure`)."""
    u = ctx.rng.uniform
    base = ctx.rng.choice((0.0, 10.0, u(0, 100), u(0, 100), 1.7e9 + u(0, 10)))
    cls = ctx.rng.choice(("above", "below", "inside"))
    ton = ctx.rng.choice((0.001, 0.0005, 0.0002, u(1e-4, 4e-3)))
    if cls == "above":
        d0 = ton / u(1.05, 3.0)                 # T_on/delta in (1, 3] s  -> limited to 1 s
    elif cls == "below":
        d0 = ton / u(0.002, 0.024)              # -> limited to 25 ms
    else:
        d0 = ton / u(0.03, 0.95)
    ops = [["adm", base, ton]]
    iv = float(min(max(F(ton) / F(d0), G_MIN), G_MAX))
    d = d0
    for _ in range(ctx.rng.choice((1, 2, 2, 3))):
        t = base + iv * ctx.rng.choice((0.04, 0.15, 0.4, 0.6, 0.9))
        want = ctx.rng.choice((0.01, 0.02, 0.03, 0.2, 0.6, 1.5, 4.0)) if ctx.rng.random() < 0.7 else u(0.005, 5.0)
        dn = d * iv / want                      # B.2 then asks for `want` seconds
        if not (0 < dn < 1e6):
            dn = d
        ops.append(["upd", t, dn])
        iv = float(min(max(F(d) / F(dn) * F(iv), G_MIN), G_MAX))
        d = dn
    end = base + iv
    for off in ctx.rng.sample((-1e-3, -2e-6, -1e-9, -5e-10, 0.0, 5e-10, 1e-6, 1e-3), 4):
        ops.append(["open", end + off] if ctx.rng.random() < 0.65 else ["adm", end + off, ton])
    return {"kind": "gate", "delta": d0, "ops": ops, "measure": True}


def gate_lines(recs, synced):
    lines, idx = [], []
    for i, (pre, op, line, post, *_u) in enumerate(recs):
        if not all(finite(v) for v in op[1:]):
            continue
        if synced:
            lines.append(f"g set {rs(pre[0])} {ors(pre[1])} {ors(pre[2])}")
            idx.append(("set", i))
        lines.append({"open": "g open {}", "adm": "g adm {} {}", "upd": "g upd {} {}"}[op[0]].format(*[rs(v) for v in op[1:]]))
        idx.append(("op", i))
    return lines, idx


def report_gate(ctx, case, probs):
    for kind, text in probs:
        ctx.violation("gate: " + text, {k: v for k, v in case.items()}, finding="C19-KF1" if kind.endswith("-kf1") else None)
        ctx.cover("gate.oracle." + kind)


def gate_run_one(ctx, case, planner, batch, tag):
    probs, recs, case = run_gate_case(case, planner)
    ctx.evals(len(recs))
    report_gate(ctx, case, probs)
    for rec in recs:
        ctx.cover(f"gate.{rec[1][0]}.{rec[2]}")
        if len(rec) > 4:
            ctx.cover("tolerance_skips")
            ctx.cover("tolerance_skips.gate.oracle")
    big = max([abs(o[1]) for o in case["ops"]] + [0.0])
    ctx.cover("gate.clock." + ("<1e3" if big < 1e3 else ("<1e6" if big < 1e6 else ">=1e6")))
    ctx.cover("gate.histories." + tag)
    ctx.nontrivial(("gseq", rs(case["delta"]), [(o[0], rs(o[1])) for o in case["ops"][:6]]))
    ctx.sample("gate." + tag, {"delta": case["delta"], "ops": case["ops"][:4], "real": [r[2] for r in recs[:4]]}, 1)
    if batch is None or not ctx.model_ok:
        return
    l1, i1 = gate_lines(recs, True)
    batch.add(l1, lambda out, a=(case, recs, i1): compare_gate(ctx, *a, out, "gate.sync"))
    if big < 1e6 and case["delta"] != 0:    # delta == 0: outside the assumptions, step-synced outcome only; beyond 1e6, B.2 amplifies the rounding of t_go - t_pg by delta_old/delta_new: only step-synced comparison
        l2, i2 = gate_lines(recs, False)
        batch.add([f"g new {rs(case['delta'])}"] + l2, lambda out, a=(case, recs, i2): compare_gate(ctx, *a, out[1:], "gate.free"))


def gate_random(ctx, n_seq, batch=None):
    for _ in range(n_seq):
        d0 = ctx.rng.choice((ctx.rng.uniform(1e-4, 0.05), ctx.rng.uniform(1e-4, 0.05), 0.0006, 0.03, 0.01, 1e-6, 1.0, -0.01))
        if ctx.rng.random() < 0.02:
            d0 = 0.0
        gate_run_one(ctx, {"kind": "gate", "delta": d0, "ops": []}, gate_planner(ctx, ctx.rng.randrange(5, 90)), batch, "random")


def gate_limited(ctx, n_seq, batch=None):
    for _ in range(n_seq):
        gate_run_one(ctx, limited_scenario(ctx), None, batch, "limited")


def compare_gate(ctx, case, recs, idx, out, stream):
    for (what, i), got in zip(idx, out):
        if what == "set":
            continue
        pre, op, line, post = recs[i][:4]
        tok = got.split()
        # tok: result, pre(delta,tpg,tgo), margin[, post(delta,tpg,tgo)]
        res = tok[0]
        margin = parse_rat(tok[4])
        t = op[1]
        # the real threshold is fl(t_go - eps): decisions within its rounding are not comparable; the free-running
        # model additionally carries the accumulated rounding of its own t_go
        width = 2 * F(math.ulp(max(abs(t), abs(pre[2] or 0.0), 5e-324)))
        if stream == "gate.free":
            width += F(1, 10**12) * max(1, abs(F(t)))
        border = margin is not None and abs(margin) <= width
        if res != line:
            if border and {res, line} in ({"0", "1"}, {"admitted", "rejected"}):
                ctx.cover("tolerance_skips")
                ctx.cover("tolerance_skips." + stream)
                if stream == "gate.free":
                    return      # free-running model may have diverged legitimately
                continue
            ctx.mismatch(stream, {"delta": case["delta"], "ops": case["ops"][:i + 1]}, line, got)
            if stream == "gate.free":
                return
            continue
        if op[0] == "open" or line == "ZeroDivisionError":
            continue   # delta == 0 is outside the assumptions: only the outcome is compared, not which fields were written before the division
        m_post = [parse_rat(x) for x in tok[5:8]]
        ok = close(post[0], m_post[0]) and close(post[1], m_post[1]) and \
            (close_tgo(post[2], post[1], m_post[2], m_post[1], REL if stream == "gate.free" else None)
             if m_post[1] is not None else close(post[2], m_post[2]))
        if not ok:
            if border and op[0] == "upd":
                ctx.cover("tolerance_skips")
                ctx.cover("tolerance_skips." + stream)
                if stream == "gate.free":
                    return
                continue
            ctx.mismatch(stream, {"delta": case["delta"], "ops": case["ops"][:i + 1]}, list(post),
                         [None if m is None else float(m) for m in m_post])
            if stream == "gate.free":
                return


# ----------------------------------------------------------------------------------------------------------------
# generated-facts oracle (independent of Lean): the class constants and defaults against the standard
# ----------------------------------------------------------------------------------------------------------------
def check_constants(ctx):
    d = A.DccAdaptiveParameters()
    for n in PNAMES:
        if F(repr(float(getattr(d, n)))) != TABLE3[n]:
            ctx.violation(f"DccAdaptiveParameters.{n} default {getattr(d, n)!r}, Table 3 gives {float(TABLE3[n])!r}",
                          {"kind": "defaults", "name": n})
    ctx.evals(len(PNAMES))


def run_corpus(ctx):
    n = 0
    for name, case in corpus("C19"):
        n += 1
        bad = judge_case(ctx, case, report=True)
        ctx.cover("corpus." + ("violating" if bad else "ok"))
    ctx.cover("corpus_cases", n)


def known_ids(ctx):
    return {k["id"] for k in getattr(ctx, "known", []) if k.get("status") == "known"}


def judge_case(ctx, case, report=False, verbose=False):
    """True iff the real code violates the property on this case in a way that is NOT covered by a `status: known`
    finding (those are reported through ctx.violation(finding=...) / printed with their id)"""
    kind = case.get("kind")
    probs = []      # (finding id or None, text)
    if kind == "reactive":
        a2 = case["t_on"] <= A2_MAX_TON_US
        rp, _, lines = run_reactive_case(case)
        tail = lines[-6:]
        probs = [(classify_r(a2, k, k_), f"reactive[{'A2' if a2 else 'A1'}] {text}") for k_, text, k in rp]
    elif kind == "gate":
        gp, recs, _ = run_gate_case(case)
        tail = [r[2] for r in recs[-6:]]
        probs = [("C19-KF1" if k_.endswith("-kf1") else None, "gate: " + text) for k_, text in gp]
    elif kind == "adaptive":
        ap, recs = run_adaptive_case(case)
        tail = [r[2] for r in recs[-6:]]
        probs = [(None, "adaptive: " + text) for _, text in ap]
    elif kind == "defaults":
        d = A.DccAdaptiveParameters()
        tail = []
        if F(repr(float(getattr(d, case["name"])))) != TABLE3[case["name"]]:
            probs = [(None, f"defaults: {case['name']}")]
    else:
        raise Infra(f"unknown replay kind {kind}")
    known = known_ids(ctx)
    if verbose:
        print("real:", tail)
        for fid, text in probs:
            print(("  [known finding %s] " % fid if fid in known else "  VIOLATES: ") + text[:400])
        if not probs:
            print("  ok")
    if report:
        for fid, text in probs:
            ctx.violation(text, case, finding=fid)
    return any(fid not in known for fid, _ in probs)


def probe_variants(ctx):
    """which variant of the two known findings the code under test is (run the witnesses); recorded in the evidence.
    Nothing depends on it for judging: a repaired code simply produces no violation of that signature."""
    gk = A.GateKeeper(delta=1.0)
    kf1 = gk.admit_packet(0.0, 0.001) and gk.admit_packet(0.025 - 5e-10, 0.001)
    obj = R.DccReactive(t_on_max_us=1000)
    st = [obj.update(0.62).state.value for _ in range(6)][-1]
    ctx.extra["variants"] = {"C19-KF1": "as-is (opens 1 ns early)" if kf1 else "repaired (opens at t_go)",
                             "C19-KF2": "as-is (A.1 edge 60 %)" if st == 4 else ("repaired (A.1 edge 65 %)" if st == 3 else f"other: state {st}")}
    ctx.note(f"known-finding variants of the code under test: {ctx.extra['variants']}")


def run(ctx):
    ctx.extra["rule"] = ("reactive: every node of the exhaustive sequence tree over the band-edge representatives (one real "
                         "update() each) + every evaluation of the edge-neighbour constant runs + every step of random "
                         "sequences; adaptive/gate: every real call of random, phased and limited-interval histories. "
                         "distinct_nontrivial counts distinct representatives and distinct random (parameter set, sequence) cases")
    probe_variants(ctx)
    run_corpus(ctx)
    check_constants(ctx)
    depth = ctx.scale(4, 5)
    reactive_tree(ctx, depth)
    ctx.exhaustive = True
    ctx.note(f"reactive tree exhaustive to depth {depth} over {len(representatives())} representatives x 5 start states x 2 tables; "
             f"constant runs over {len(edge_neighbours())} float neighbours of the band edges x 5 start states x 2 tables")
    batch = Batch()
    check_table_selection(ctx, batch)
    reactive_neighbours(ctx, batch)
    reactive_random(ctx, ctx.scale(150, 3000), batch)
    adaptive_random(ctx, ctx.scale(90, 2000), batch)
    adaptive_random(ctx, ctx.scale(40, 800), batch, phased=True)
    gate_random(ctx, ctx.scale(100, 2200), batch)
    gate_limited(ctx, ctx.scale(60, 1200), batch)
    batch.flush(ctx)


def search(ctx):
    """obligation/correspondence broken: widen the search on the REAL code, judged by the oracle only"""
    ok = ctx.model_ok
    ctx.model_ok = False
    try:
        check_constants(ctx)
        check_table_selection(ctx)
        reactive_neighbours(ctx, runlen=6)
        reactive_tree(ctx, ctx.scale(4, 5))
        reactive_random(ctx, ctx.scale(450, 9000))
        adaptive_random(ctx, ctx.scale(270, 6000))
        adaptive_random(ctx, ctx.scale(120, 2400), phased=True)
        gate_random(ctx, ctx.scale(300, 6600))
        gate_limited(ctx, ctx.scale(180, 3600))
    finally:
        ctx.model_ok = ok


def replay(ctx, obj):
    return judge_case(ctx, obj.get("case", obj), verbose=True)

"""Lock map and lock-order graph of the router / location table / LDM sources (DESIGN §3.B, C15/C16).

An `ast` pass (nothing is imported or executed) over the files in TARGETS writes lean/Generated/Locks.lean:

* `Lk`  – every lock attribute (`self.x = Lock()/RLock()` in an `__init__`), named `<Class>_<attr>`;
* `At`  – every *shared* attribute: an attribute of `self` that is mutated in some method other than `__init__`
          (plain store, `del`, subscript store, augmented assignment, mutating container method), plus
          `ext_<attr>` for stores to attributes of other objects (`entry.ls_pending = True`);
* `Fn`  – every method that touches a shared attribute or takes a lock;
* `accesses` – one record per syntactic access: function, attribute, kind (read / write / rmw), the enclosing
          `with self.<lock>` blocks (outermost first) and the ordinal of the innermost `with` inside the function;
* `blocks f` – the block decomposition of `f` in source order: each `with self.<lock>` region with the accesses in
          it (nested regions are separate entries carrying the full lock stack), and each unlocked access alone;
* `edges` – lock-order edges: lexical nesting of `with` blocks and calls made while a lock is held (simple call
          graph over `self.m()`, `super().m()`, `self.<field>.m()` with the field types of FIELD_TYPES, and unique
          method names), transitively through the callee's own acquisitions;
* `reentrantSelf` – self-edges on RLocks (dropped from `edges`: re-acquisition by the owner is a no-op).

The Lean models carry the assumed decomposition; theorems `Generated.Locks.blocks f = assumed…` / `allUnder …` are
proved by `decide`, so dropping or moving a `with` in the source breaks a proof obligation.
"""
from __future__ import annotations

import ast
import os

import gen_lean
from gen_lean import register, write_if_changed, src

TARGETS = [
    "geonet/router.py",
    "geonet/location_table.py",
    "facilities/local_dynamic_map/dictionary_database.py",
    "facilities/local_dynamic_map/ldm_service.py",
    "facilities/local_dynamic_map/ldm_service_reactive.py",
    "facilities/local_dynamic_map/ldm_service_threads.py",
    "facilities/local_dynamic_map/ldm_maintenance.py",
    "facilities/local_dynamic_map/ldm_maintenance_reactive.py",
    "facilities/local_dynamic_map/ldm_maintenance_thread.py",
    "facilities/local_dynamic_map/if_ldm_3.py",
    "facilities/local_dynamic_map/if_ldm_4.py",
]

# receiver field -> classes its methods may resolve to (dynamic dispatch: all variants)
FIELD_TYPES = {
    "location_table": ["LocationTable"],
    "ldm_maintenance": ["LDMMaintenance", "LDMMaintenanceReactive", "LDMMaintenanceThread"],
    "ldm_service": ["LDMService", "LDMServiceReactive", "LDMServiceThreads"],
    "data_containers": ["DictionaryDataBase"],
}
# local variable names with a known class (simple, by convention of the sources)
VAR_TYPES = {"entry": ["LocationTableEntry"], "se_entry": ["LocationTableEntry"], "so_entry": ["LocationTableEntry"],
             "de_entry": ["LocationTableEntry"]}

MUTATORS = {"pop", "append", "add", "discard", "remove", "setdefault", "clear", "update", "popleft", "appendleft",
            "extend", "insert", "popitem", "sort", "reverse"}
LOCK_CTORS = {"Lock": False, "RLock": True}
IGNORED_EXT = {"daemon"}      # attributes of thread-local fresh objects (timer.daemon = True)


def _lock_ctor(node):
    """returns reentrant flag if `node` is Lock()/RLock()/threading.Lock()/threading.RLock(), else None"""
    if isinstance(node, ast.Call):
        f = node.func
        name = f.id if isinstance(f, ast.Name) else f.attr if isinstance(f, ast.Attribute) else None
        if name in LOCK_CTORS:
            return LOCK_CTORS[name]
    return None


def _self_attr(node):
    if isinstance(node, ast.Attribute) and isinstance(node.value, ast.Name) and node.value.id == "self":
        return node.attr
    return None


class ClassInfo:
    def __init__(self, name, node, file):
        self.name, self.node, self.file = name, node, file
        self.bases = [b.id for b in node.bases if isinstance(b, ast.Name)]
        self.methods = {n.name: n for n in node.body if isinstance(n, (ast.FunctionDef, ast.AsyncFunctionDef))}
        self.locks = {}      # attr -> reentrant
        init = self.methods.get("__init__")
        if init is not None:
            for st in ast.walk(init):
                if isinstance(st, (ast.Assign, ast.AnnAssign)):
                    tg = st.targets if isinstance(st, ast.Assign) else [st.target]
                    r = _lock_ctor(st.value) if st.value is not None else None
                    if r is not None:
                        for t in tg:
                            a = _self_attr(t)
                            if a:
                                self.locks[a] = r


def parse_all():
    classes = {}
    for rel in TARGETS:
        tree = ast.parse(src(rel))
        for n in tree.body:
            if isinstance(n, ast.ClassDef):
                classes[n.name] = ClassInfo(n.name, n, rel)
    return classes


def mro(classes, c):
    out, todo = [], [c]
    while todo:
        x = todo.pop(0)
        if x in classes and x not in out:
            out.append(x)
            todo += classes[x].bases
    return out


def subclasses(classes, c):
    return [k for k in classes if c in mro(classes, k)]


def lock_owner(classes, c, attr):
    for k in mro(classes, c):
        if attr in classes[k].locks:
            return k
    return None


def attr_owner(classes, c, attr, mutated):
    """class of the MRO that owns shared attribute `attr` (first one that mutates it or defines it)"""
    for k in reversed(mro(classes, c)):
        if attr in mutated.get(k, ()):
            return k
    return None


class Walker:
    """walks one method; records accesses, with-regions and calls under the current lock stack"""

    def __init__(self, classes, cls, fname, shared_of):
        self.classes, self.cls, self.fname = classes, cls, fname
        self.shared_of = shared_of          # None during the discovery pass
        self.stack = []                     # [(lockname, ordinal)]
        self.ordinal = 0
        self.accesses = []                  # (attr, kind, stack-tuple)
        self.mutated = set()
        self.withs = []                     # (lockname, outer-stack)
        self.calls = []                     # (stack-tuple, receiver-kind, receiver, method)
        self.acquired = set()
        self.suppress = set()

    # -- helpers
    def rec(self, attr, kind):
        if kind != "read":
            self.mutated.add(attr)
        self.accesses.append((attr, kind, tuple(self.stack)))

    def reads_attr(self, node, attr):
        return any(_self_attr(n) == attr and isinstance(n.ctx, ast.Load) for n in ast.walk(node))

    # -- statements
    def stmts(self, body):
        for s in body:
            self.stmt(s)

    def stmt(self, s):
        if isinstance(s, (ast.With, ast.AsyncWith)):
            pushed = 0
            for it in s.items:
                a = _self_attr(it.context_expr)
                owner = lock_owner(self.classes, self.cls, a) if a else None
                if owner is None and a is None:
                    # `with self.<field>.<lock>:` - a lock of the object held in a field of known class (FIELD_TYPES),
                    # e.g. `with self.location_table.loc_t_lock:` inside a Router method
                    ce = it.context_expr
                    fld = _self_attr(ce.value) if isinstance(ce, ast.Attribute) else None
                    for k in FIELD_TYPES.get(fld, []) if fld else []:
                        if k in self.classes and lock_owner(self.classes, k, ce.attr) is not None:
                            owner, a = lock_owner(self.classes, k, ce.attr), ce.attr
                            break
                if owner is not None:
                    name = f"{owner}_{a}"
                    self.ordinal += 1
                    self.withs.append((name, tuple(self.stack)))
                    self.acquired.add(name)
                    self.stack.append((name, self.ordinal))
                    pushed += 1
                else:
                    self.expr(it.context_expr)
            self.stmts(s.body)
            for _ in range(pushed):
                self.stack.pop()
        elif isinstance(s, ast.Assign):
            # `self.a = f(self.a)` is ONE read-modify-write record, not a read followed by a write
            self.suppress = {_self_attr(t) for t in s.targets if _self_attr(t) and self.reads_attr(s.value, _self_attr(t))}
            self.expr(s.value)
            self.suppress = set()
            for t in s.targets:
                self.target(t, s.value)
        elif isinstance(s, ast.AnnAssign):
            if s.value is not None:
                self.expr(s.value)
                self.target(s.target, s.value)
        elif isinstance(s, ast.AugAssign):
            self.expr(s.value)
            self.target(s.target, None, aug=True)
        elif isinstance(s, ast.Delete):
            for t in s.targets:
                self.target(t, None, delete=True)
        elif isinstance(s, (ast.FunctionDef, ast.AsyncFunctionDef, ast.ClassDef)):
            self.stmts(s.body)       # nested defs: treated as inline (closures run in the same thread)
        else:
            for f, v in ast.iter_fields(s):
                if isinstance(v, list):
                    if v and isinstance(v[0], ast.stmt):
                        self.stmts(v)
                    else:
                        for x in v:
                            if isinstance(x, ast.expr):
                                self.expr(x)
                            elif isinstance(x, ast.excepthandler):
                                self.stmts(x.body)
                            elif isinstance(x, ast.match_case):
                                self.stmts(x.body)
                elif isinstance(v, ast.expr):
                    self.expr(v)

    def target(self, t, value, aug=False, delete=False):
        if isinstance(t, (ast.Tuple, ast.List)):
            for x in t.elts:
                self.target(x, value, aug, delete)
            return
        a = _self_attr(t)
        if a is not None:
            if aug or (value is not None and self.reads_attr(value, a)):
                self.rec(a, "rmw")
            else:
                self.rec(a, "write")
            return
        if isinstance(t, ast.Subscript):
            a = _self_attr(t.value)
            self.expr(t.slice)
            if a is not None:
                self.rec(a, "rmw" if aug else "write")
            else:
                self.expr(t.value)
            return
        if isinstance(t, ast.Attribute):
            # store to an attribute of another object
            if not (isinstance(t.value, ast.Name) and t.value.id == "self"):
                if not isinstance(t.value, ast.Name):
                    self.expr(t.value)
                if t.attr not in IGNORED_EXT:
                    self.rec("ext_" + t.attr, "rmw" if aug else "write")
            return
        if isinstance(t, ast.Starred):
            self.target(t.value, value, aug, delete)

    # -- expressions
    def expr(self, e):
        if e is None:
            return
        if isinstance(e, ast.Call):
            f = e.func
            handled = False
            if isinstance(f, ast.Attribute):
                a = _self_attr(f.value)
                if a is not None and f.attr in MUTATORS and a not in FIELD_TYPES:
                    self.rec(a, "write")
                    handled = True
                elif a is not None:
                    # self.<field>.m(...)  -> read of the field + call edge
                    if a not in self.suppress:
                        self.rec(a, "read")
                    self.calls.append((tuple(self.stack), "field", a, f.attr))
                    handled = True
                elif isinstance(f.value, ast.Name) and f.value.id == "self":
                    self.calls.append((tuple(self.stack), "self", None, f.attr))
                    handled = True
                elif isinstance(f.value, ast.Call) and isinstance(f.value.func, ast.Name) and f.value.func.id == "super":
                    self.calls.append((tuple(self.stack), "super", None, f.attr))
                    handled = True
                elif isinstance(f.value, ast.Name):
                    self.calls.append((tuple(self.stack), "var", f.value.id, f.attr))
                    handled = True
                elif isinstance(f.value, ast.Attribute):
                    # self.a.b.m(...) : resolve on the last field name
                    self.expr(f.value.value)
                    self.calls.append((tuple(self.stack), "field", f.value.attr, f.attr))
                    handled = True
            if not handled:
                self.expr(f)
            for x in e.args:
                self.expr(x)
            for k in e.keywords:
                self.expr(k.value)
            return
        a = _self_attr(e)
        if a is not None:
            if a not in self.suppress:
                self.rec(a, "read")
            return
        if isinstance(e, (ast.Lambda,)):
            self.expr(e.body)
            return
        for ch in ast.iter_child_nodes(e):
            if isinstance(ch, ast.expr):
                self.expr(ch)
            elif isinstance(ch, ast.comprehension):
                self.expr(ch.iter)
                for c in ch.ifs:
                    self.expr(c)


def _rebind_counts(body):
    """{attr: n} - the largest number of times one execution of the statement list `body` can rebind `self.<attr>`
    (plain / annotated / augmented assignment whose target is the attribute itself; subscript stores and mutating
    method calls change the object, they do not rebind).  Sequence = sum, `if`/`match`/handlers = maximum over the
    alternatives, a site inside a loop counts twice ("more than once").  Nested defs/lambdas are not entered."""
    def add(a, b):
        out = dict(a)
        for k, v in b.items():
            out[k] = out.get(k, 0) + v
        return out

    def mx(ds):
        out = {}
        for d in ds:
            for k, v in d.items():
                out[k] = max(out.get(k, 0), v)
        return out

    def targets(t):
        if isinstance(t, (ast.Tuple, ast.List)):
            out = {}
            for x in t.elts:
                out = add(out, targets(x))
            return out
        if isinstance(t, ast.Starred):
            return targets(t.value)
        a = _self_attr(t)
        return {a: 1} if a is not None else {}

    def stmt(s):
        if isinstance(s, ast.Assign):
            out = {}
            for t in s.targets:
                out = add(out, targets(t))
            return out
        if isinstance(s, (ast.AnnAssign, ast.AugAssign)):
            return targets(s.target) if getattr(s, "value", True) is not None else {}
        if isinstance(s, ast.If):
            return mx([seq(s.body), seq(s.orelse)])
        if isinstance(s, (ast.For, ast.AsyncFor, ast.While)):
            inner = seq(s.body)
            return add({k: 2 * v for k, v in inner.items()}, seq(s.orelse))
        if isinstance(s, (ast.With, ast.AsyncWith)):
            return seq(s.body)
        if isinstance(s, ast.Try) or s.__class__.__name__ == "TryStar":
            return add(add(add(seq(s.body), mx([seq(h.body) for h in s.handlers])), seq(s.orelse)), seq(s.finalbody))
        if isinstance(s, ast.Match):
            return mx([seq(c.body) for c in s.cases])
        return {}

    def seq(body):
        out = {}
        for s in body:
            out = add(out, stmt(s))
        return out

    return seq(body)


def analyse():
    classes = parse_all()
    walkers = {}
    for cname, ci in classes.items():
        for mname, mnode in ci.methods.items():
            w = Walker(classes, cname, mname, None)
            w.stmts(mnode.body)
            walkers[(cname, mname)] = w
    # shared attributes: mutated outside __init__, by class that mutates them
    mutated = {}
    for (c, m), w in walkers.items():
        if m == "__init__":
            continue
        for a in w.mutated:
            if a.startswith("ext_"):
                continue
            # owner = highest class in the MRO having the attr mutated; approximate by defining class of the method
            mutated.setdefault(c, set()).add(a)
    # normalise owner: an attribute mutated in a subclass method but initialised in a base belongs to the base
    init_attrs = {}
    for c, ci in classes.items():
        s = set()
        init = ci.methods.get("__init__")
        if init is not None:
            for n in ast.walk(init):
                a = _self_attr(n)
                if a is not None and isinstance(n.ctx, ast.Store):
                    s.add(a)
        init_attrs[c] = s

    def owner_of(c, a):
        for k in reversed(mro(classes, c)):
            if a in init_attrs.get(k, ()):
                return k
        return c

    shared = set()
    for c, attrs in mutated.items():
        for a in attrs:
            shared.add((owner_of(c, a), a))

    def is_lock(c, a):
        return lock_owner(classes, c, a) is not None

    # resolve calls -> acquired lock sets (fixpoint)
    def resolve(c, kind, recv, meth):
        out = []
        if kind == "self":
            cands = set(mro(classes, c)) | set(subclasses(classes, c))
        elif kind == "super":
            cands = set(mro(classes, c)[1:])
        elif kind == "field":
            cands = set()
            for k in FIELD_TYPES.get(recv, []):
                cands |= set(mro(classes, k)) | set(subclasses(classes, k))
        else:
            cands = set()
            for k in VAR_TYPES.get(recv, []):
                cands |= set(mro(classes, k))
            if not cands:
                owners = [k for k in classes if meth in classes[k].methods]
                if len(owners) == 1 and not meth.startswith("__"):
                    cands = set(owners)
        for k in cands:
            if k in classes and meth in classes[k].methods:
                out.append((k, meth))
        return out

    acq = {k: set(w.acquired) for k, w in walkers.items()}
    changed = True
    while changed:
        changed = False
        for (c, m), w in walkers.items():
            for (_, kind, recv, meth) in w.calls:
                for callee in resolve(c, kind, recv, meth):
                    new = acq[callee] - acq[(c, m)]
                    if new:
                        acq[(c, m)] |= new
                        changed = True

    edges, reentrant_self = set(), set()
    reentrant = {f"{c}_{a}": r for c, ci in classes.items() for a, r in ci.locks.items()}

    def add_edge(a, b):
        if a == b and reentrant.get(a):
            reentrant_self.add(a)
        else:
            edges.add((a, b))

    for (c, m), w in walkers.items():
        for (name, outer) in w.withs:
            for (h, _) in outer:
                add_edge(h, name)
        for (stack, kind, recv, meth) in w.calls:
            if not stack:
                continue
            for callee in resolve(c, kind, recv, meth):
                for x in acq[callee]:
                    for (h, _) in stack:
                        add_edge(h, x)

    # access table
    records, blocks = [], {}
    for (c, m), w in sorted(walkers.items()):
        if m == "__init__":
            continue
        fn = f"{c}_{m}"
        seq = []
        for (a, kind, stack) in w.accesses:
            if a.startswith("ext_"):
                attr = a
            else:
                if is_lock(c, a):
                    continue
                o = owner_of(c, a)
                if (o, a) not in shared:
                    continue
                attr = f"{o}_{a}"
            locks = [l for (l, _) in stack]
            blk = stack[-1][1] if stack else 0
            rec = (fn, attr, kind, tuple(locks), blk)
            if not records or records[-1] != rec:
                records.append(rec)
            seq.append((tuple(locks), blk, attr, kind))
        # block decomposition in source order
        bl = []
        for (locks, blk, attr, kind) in seq:
            if blk != 0 and bl and bl[-1][1] == blk:
                if (attr, kind) not in bl[-1][2]:
                    bl[-1][2].append((attr, kind))
            elif blk == 0 and bl and bl[-1][1] == 0 and bl[-1][2] == [(attr, kind)]:
                continue          # repeated identical unlocked access
            else:
                bl.append((locks, blk, [(attr, kind)]))
        # with-regions without shared accesses still count as (empty) blocks if they take a lock
        if bl or w.withs:
            blocks[fn] = [(list(l), acc) for (l, _, acc) in bl]
            if not bl:
                blocks[fn] = []
    # resolved calls per function (source order): lock stack at the call site and candidate callees
    calls = {}
    for (c, m), w in sorted(walkers.items()):
        if m == "__init__":
            continue
        lst = []
        for (stack, kind, recv, meth) in w.calls:
            for callee in sorted(resolve(c, kind, recv, meth)):
                if callee[1] == "__init__":
                    continue
                lst.append(([l for (l, _) in stack], f"{callee[0]}_{callee[1]}"))
        if lst:
            calls[f"{c}_{m}"] = lst
    locks = sorted(reentrant.items())
    # rebinding sites of shared attributes per function (path maximum, see _rebind_counts)
    rebinds = []
    for (c, m), w in sorted(walkers.items()):
        if m == "__init__":
            continue
        for a, n in sorted(_rebind_counts(classes[c].methods[m].body).items()):
            if is_lock(c, a):
                continue
            o = owner_of(c, a)
            if (o, a) in shared and n > 0:
                rebinds.append((f"{c}_{m}", f"{o}_{a}", n))
    return {"calls": calls, "locks": locks, "records": records, "edges": sorted(edges), "reentrant_self": sorted(reentrant_self),
            "blocks": blocks, "rebinds": rebinds}


def _ident(s):
    return "".join(ch if ch.isalnum() or ch == "_" else "_" for ch in s)


def render(info):
    lk = [n for n, _ in info["locks"]]
    for a, b in info["edges"]:
        for x in (a, b):
            if x not in lk:
                lk.append(x)
    ats = sorted({r[1] for r in info["records"]})
    fns = sorted(info["blocks"].keys() | {r[0] for r in info["records"]} | info["calls"].keys()
                 | {c for v in info["calls"].values() for _, c in v})
    o = ["namespace Generated.Locks\n"]

    def enum(name, ctors):
        s = f"inductive {name} where\n"
        for c in ctors:
            s += f"  | {_ident(c)}\n"
        s += "  deriving DecidableEq, Repr\n"
        return s

    o.append(enum("Lk", lk))
    o.append(enum("At", ats))
    o.append(enum("Fn", fns))
    o.append("inductive Kd where\n  | read | write | rmw\n  deriving DecidableEq, Repr\n")
    o.append("/-- every function of `Fn` (to quantify over all call sites) -/\n")
    o.append("def allFns : List Fn := [" + ", ".join(f".{_ident(f)}" for f in fns) + "]\n")
    o.append("structure Access where\n  fn : Fn\n  attr : At\n  kind : Kd\n  locks : List Lk\n  blk : Nat\n  deriving DecidableEq, Repr\n")

    def lks(ls):
        return "[" + ", ".join(".%s" % _ident(l) for l in ls) + "]"

    o.append("def reentrant : List Lk := " + lks([n for n, r in info["locks"] if r]) + "\n")
    o.append("def reentrantSelf : List Lk := " + lks(info["reentrant_self"]) + "\n")
    o.append("def edges : List (Lk × Lk) := [" + ", ".join(f"(.{_ident(a)}, .{_ident(b)})" for a, b in info["edges"]) + "]\n")
    o.append("def accesses : List Access := [\n" + ",\n".join(
        f"  ⟨.{_ident(fn)}, .{_ident(at)}, .{kd}, {lks(ls)}, {blk}⟩" for (fn, at, kd, ls, blk) in info["records"]) + "]\n")
    o.append("/-- block decomposition of each function in source order: (lock stack, accesses) -/\n")
    o.append("def blocks : Fn → List (List Lk × List (At × Kd))\n")
    for fn in fns:
        bl = info["blocks"].get(fn, [])
        body = ", ".join("(%s, [%s])" % (lks(l), ", ".join(f"(.{_ident(a)}, .{k})" for a, k in acc)) for l, acc in bl)
        o.append(f"  | .{_ident(fn)} => [{body}]\n")
    o.append("/-- shape of each function: its lock sections / unlocked accesses in source order, each with the SET of "
             "shared attributes it touches (sorted, kinds and repetitions dropped) – stable under renaming of locals and "
             "reordering of statements inside a section -/\n")
    o.append("def shape : Fn → List (List Lk × List At)\n")
    for fn in fns:
        bl = info["blocks"].get(fn, [])
        body = ", ".join("(%s, [%s])" % (lks(l), ", ".join(f".{_ident(a)}" for a in sorted({a for a, _ in acc}))) for l, acc in bl)
        o.append(f"  | .{_ident(fn)} => [{body}]\n")
    o.append("/-- resolved calls of each function in source order: (locks held at the call site, callee) -/\n")
    o.append("def calls : Fn → List (List Lk × Fn)\n")
    for fn in fns:
        cl = info["calls"].get(fn, [])
        body = ", ".join("(%s, .%s)" % (lks(l), _ident(c)) for l, c in cl)
        o.append(f"  | .{_ident(fn)} => [{body}]\n")
    o.append("/-- rebinding sites: (function, shared attribute, the largest number of times ONE call of the function can "
             "execute an assignment whose target is the attribute itself - `self.a = …`, `self.a += …`; a site inside a loop "
             "counts 2).  An attribute that publishes an immutable object to readers that take no lock must be rebound "
             "exactly once per update. -/\n")
    o.append("def rebinds : List (Fn × At × Nat) := [" + ", ".join(
        f"(.{_ident(fn)}, .{_ident(at)}, {n})" for (fn, at, n) in info.get("rebinds", [])) + "]\n")
    o.append("""
/-- how often one call of `f` can rebind `a` (0 when `f` never assigns to the attribute itself) -/
def rebindCount (f : Fn) (a : At) : Nat :=
  ((rebinds.filter (fun r => r.1 == f && r.2.1 == a)).map (fun r => r.2.2)).foldl (· + ·) 0
/-- every access (of the given kinds) to `a` happens while `l` is held -/
def allUnder (a : At) (l : Lk) : Bool := accesses.all (fun x => x.attr != a || x.locks.contains l)
def writesUnder (a : At) (l : Lk) : Bool :=
  accesses.all (fun x => x.attr != a || x.kind == .read || x.locks.contains l)
/-- no read-modify-write of `a` outside a lock -/
def noUnlockedRmw (a : At) : Bool := accesses.all (fun x => x.attr != a || x.kind != .rmw || !x.locks.isEmpty)
/-- all edges go strictly upwards in `rank` (a witness of acyclicity) -/
def ranked (rank : Lk → Nat) : Bool := edges.all (fun e => rank e.1 < rank e.2)
end Generated.Locks
""")
    return "".join(o)


@register(props=["C15", "C16"])
def gen_locks():
    write_if_changed("Locks.lean", render(analyse()))


@register(props=["C15"])
def gen_open_findings():
    """Which known findings of C15 are still OPEN (status "known" in /verif/known_findings.d/C15.json).  The tie theorem
    `blocks_new_packet` accepts the unrepaired section shape of LocationTable.new_*_packet only while C15-KF2 is open:
    marking the finding `fixed` makes the theorem strict, so moving the LocTE update out of `loc_t_lock` again
    re-opens a proof obligation."""
    import json
    path = os.path.join(os.path.dirname(gen_lean.LEAN), "known_findings.d", "C15.json")
    entries = json.load(open(path)) if os.path.exists(path) else []
    kf2_open = any(e.get("id") == "C15-KF2" and e.get("status") == "known" for e in entries)
    write_if_changed("OpenFindings.lean",
                     "namespace Generated.OpenFindings\n"
                     "/-- known_findings.d/C15.json lists C15-KF2 with status \"known\" (not yet repaired in /repo) -/\n"
                     f"def C15_KF2 : Bool := {'true' if kf2_open else 'false'}\n"
                     "end Generated.OpenFindings\n")


if __name__ == "__main__":
    import sys
    info = analyse()
    gen_locks()
    print("locks", info["locks"])
    print("edges", info["edges"], "reentrantSelf", info["reentrant_self"])
    for fn in sys.argv[1:]:
        print(fn, info["blocks"].get(fn))

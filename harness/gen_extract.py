"""Generated/Extracted*.lean: integer / bit-level / octet-string functions of the repository translated from their
Python AST by py2lean (DESIGN section 3.C), one file per source family, and the list of bridge modules
(`Props/*Bridge*.lean`: machine-checked `Extracted.f = Model.f`) that are proof obligations of a property.

* A function outside the translator's subset is emitted as a comment `-- extract-skipped <name>: <reason>`; the
  bridge module of its family is then NOT an obligation of the run (it could not build: the definition is missing)
  and the property falls back on correspondence alone.  This is logged, never a violation by itself.
* When every function of a family is extracted, the family's bridge module is listed in `MODULES` of the property
  (`bridge_modules("Cxx")`): it is built and audited on every run; a lemma that no longer checks is a broken
  obligation -> failing-input search -> VIOLATION.
* Each generator returns {name: "extracted" | "extract-skipped: why", bridge module: "obligation" | "not checked: why"};
  gen_lean.generate_all copies it into the evidence (`coverage.extraction`).
Files are written under the build lock and only when their content changes.
"""
from __future__ import annotations

import dataclasses

import common
import gen_lean
from gen_lean import write_if_changed
import py2lean
from py2lean import NAT, INT, BOOL, BYTES, E, R, FuncInfo, World, Unsupported

PRELUDE = """import FlexModel.Wire.Bits
/-! Python built-ins used by the extracted definitions: the octet-string primitives are those of
`FlexModel/Wire/Bits.lean` (`int.to_bytes`, `int.from_bytes`, slicing, bool -> int); `Enum(value)` is `enumOf`. -/
namespace Generated.Extracted
open FlexModel.Wire
/-- `SomeEnum(v)`: `ValueError` unless `v` is one of the enum's values (list regenerated from the source) -/
def enumOf (codes : List Nat) (v : Nat) : Except Err Nat := if codes.contains v then .ok v else .error .value
end Generated.Extracted
"""


@dataclasses.dataclass
class Family:
    key: str
    file: str                    # Generated/<file>.lean
    imports: list
    bridge: str                  # Props.<...>
    props: list
    deps: list = dataclasses.field(default_factory=list)
    jobs: list = dataclasses.field(default_factory=list)
    error: str | None = None     # the family could not even be set up (import error, class vanished ...)


# functions of the candidate list that are deliberately not attempted (reported in the evidence as skipped)
NOT_ATTEMPTED = {
    "BasicHeader.initialize_with_mib_request_and_rhl": "float glue `int(max_packet_lifetime * 1000)` on a float argument "
                                                        "(covered by correspondence on every integer-ms request, C20)",
    "TST.set_in_normal_timestamp_seconds": "float arithmetic on a float argument",
    "LongPositionVector.set_latitude/set_longitude/set_speed/set_heading/refresh_with_tpv_data": "float arithmetic",
    "LocationTableEntry.check_duplicate_sn": "set/deque containers and in-place mutation (modelled by hand: Geo/LocT.dplPush)",
    "DccReactive.update/_target_state": "float CBR thresholds, dict/list lookups",
    "GenerationDeltaTime.from_timestamp/as_timestamp_in_certain_point": "round()/trunc() of float quotients",
    "CommonHeader.initialize_with_request/initialize_beacon": "reads GNDataRequest / MIB objects (no integer logic of its own)",
}


def build():
    """set up enums, records and the job list from the current source; returns (world, families)"""
    w = World()
    fams = []

    def family(*a, **k):
        f = Family(*a, **k)
        fams.append(f)
        return f

    def job(fam, *a, **k):
        fi = FuncInfo(*a, **k)
        w.add_func(fi)
        fam.jobs.append(fi)
        return fi

    f_lt = family("LT", "Extracted", [], "Props.C20Bridge", ["C20"])
    f_basic = family("Basic", "ExtractedBasic", ["Generated.ExtractPrelude"], "Props.C02BridgeBasic", ["C02", "C20"])
    f_common = family("Common", "ExtractedCommon", ["Generated.ExtractPrelude"], "Props.C02BridgeCommon", ["C02"])
    f_pv = family("PV", "ExtractedPV", ["Generated.ExtractPrelude"], "Props.C02BridgePV", ["C02"])
    f_tst = family("TST", "ExtractedTST", [], "Props.C08BridgeTST", ["C08"])
    f_ext = family("Ext", "ExtractedExt", ["Generated.ExtractPrelude", "Generated.ExtractedPV"], "Props.C02BridgeExt", ["C02"],
                   deps=["PV"])
    f_btp = family("Btp", "ExtractedBtp", ["Generated.ExtractPrelude"], "Props.C02BridgeBtp", ["C02"])
    f_seq = family("Seq", "ExtractedSeq", [], "Props.C15BridgeSeq", ["C15"])

    def guarded(fam, fn):
        try:
            fn()
        except Exception as e:  # noqa: BLE001  (a vanished class / attribute: the family is skipped, not the run)
            fam.error = f"{type(e).__name__}: {e}"

    # ---------------------------------------------------------------- basic_header.py
    def setup_basic():
        from flexstack.geonet import basic_header as bh
        w.add_enum(bh.LTbase), w.add_enum(bh.BasicNH)
        w.add_record(bh.LT, [("multiplier", NAT), ("base", E("LTbase"))])
        w.add_record(bh.BasicHeader, [("version", NAT), ("nh", E("BasicNH")), ("reserved", NAT), ("lt", R("LT")), ("rhl", NAT)])
        job(f_lt, bh.LT.set_value_in_millis, "LT_set_value_in_millis", "LT", self_leaves=[], args=[("value", NAT)], ret=R("LT"))
        job(f_lt, bh.LT.get_value_in_millis, "LT_get_value_in_millis", "LT", ret=NAT)
        job(f_lt, bh.LT.get_value_in_seconds, "LT_get_value_in_seconds", "LT", ret=NAT)
        job(f_lt, bh.LT.encode_to_int, "LT_encode_to_int", "LT", ret=NAT)
        f_basic.imports.append("Generated.Extracted")
        f_basic.deps.append("LT")
        job(f_basic, bh.BasicHeader.encode_to_int, "BasicHeader_encode_to_int", "BasicHeader", ret=NAT)
        job(f_basic, bh.BasicHeader.encode_to_bytes, "BasicHeader_encode_to_bytes", "BasicHeader", ret=BYTES)
        job(f_basic, bh.BasicHeader.decode_from_int, "BasicHeader_decode_from_int", "BasicHeader", kind="classmethod",
            args=[("value", NAT)], ret=R("BasicHeader"))
        job(f_basic, bh.BasicHeader.decode_from_bytes, "BasicHeader_decode_from_bytes", "BasicHeader", kind="classmethod",
            args=[("value", BYTES)], ret=R("BasicHeader"))
        job(f_basic, bh.BasicHeader.set_rhl, "BasicHeader_set_rhl", "BasicHeader", args=[("rhl", INT)], ret=R("BasicHeader"))
    guarded(f_basic, setup_basic)
    if f_basic.error:
        f_lt.error = f_basic.error

    # ---------------------------------------------------------------- service_access_point.TrafficClass, common_header.py
    def setup_common():
        from flexstack.geonet import service_access_point as sap, common_header as ch
        for e in (sap.CommonNH, sap.HeaderType, sap.HeaderSubType, sap.TopoBroadcastHST, sap.GeoBroadcastHST,
                  sap.GeoAnycastHST, sap.LocationServiceHST):
            w.add_enum(e)
        w.add_record(sap.TrafficClass, [("scf", BOOL), ("channel_offload", BOOL), ("tc_id", NAT)])
        # `hst` holds a member of any of the sub-type enums: only its value is used
        w.add_record(ch.CommonHeader, [("nh", E("CommonNH")), ("reserved", NAT), ("ht", E("HeaderType")),
                                       ("hst", E("HeaderSubType")), ("tc", R("TrafficClass")), ("flags", NAT),
                                       ("pl", NAT), ("mhl", NAT)])
        job(f_common, sap.TrafficClass.encode_to_int, "TrafficClass_encode_to_int", "TrafficClass", ret=NAT)
        job(f_common, sap.TrafficClass.decode_from_int, "TrafficClass_decode_from_int", "TrafficClass", kind="classmethod",
            args=[("tc", NAT)], ret=R("TrafficClass"))
        job(f_common, ch.CommonHeader.encode_to_int, "CommonHeader_encode_to_int", "CommonHeader", ret=NAT)
        job(f_common, ch.CommonHeader.encode_to_bytes, "CommonHeader_encode_to_bytes", "CommonHeader", ret=BYTES)
        job(f_common, ch.CommonHeader.decode_from_int, "CommonHeader_decode_from_int", "CommonHeader", kind="classmethod",
            args=[("header", NAT)], ret=R("CommonHeader"))
        job(f_common, ch.CommonHeader.decode_from_bytes, "CommonHeader_decode_from_bytes", "CommonHeader", kind="classmethod",
            args=[("header", BYTES)], ret=R("CommonHeader"))
    guarded(f_common, setup_common)

    # ---------------------------------------------------------------- gn_address.py, position_vector.py
    def setup_pv():
        from flexstack.geonet import gn_address as ga, position_vector as pv
        w.add_enum(ga.M), w.add_enum(ga.ST)
        w.add_record(ga.MID, [("mid", BYTES)])
        w.add_record(ga.GNAddress, [("m", E("M")), ("st", E("ST")), ("mid", R("MID"))])
        w.add_record(pv.TST, [("msec", NAT)])
        w.add_record(pv.LongPositionVector, [("gn_addr", R("GNAddress")), ("tst", R("TST")), ("latitude", INT),
                                             ("longitude", INT), ("pai", BOOL), ("s", INT), ("h", NAT)])
        w.add_record(pv.ShortPositionVector, [("gn_addr", R("GNAddress")), ("tst", R("TST")), ("latitude", INT),
                                              ("longitude", INT)])
        job(f_pv, ga.GNAddress.encode_to_int, "GNAddress_encode_to_int", "GNAddress", ret=NAT)
        job(f_pv, ga.GNAddress.encode, "GNAddress_encode", "GNAddress", ret=BYTES)
        job(f_pv, ga.GNAddress.decode, "GNAddress_decode", "GNAddress", kind="classmethod", args=[("data", BYTES)],
            ret=R("GNAddress"))
        job(f_pv, pv.TST.encode, "TST_encode", "TST", ret=NAT)
        job(f_pv, pv.TST.decode, "TST_decode", "TST", kind="classmethod", args=[("data", NAT)], ret=R("TST"))
        job(f_pv, pv.LongPositionVector.encode_to_int, "LongPositionVector_encode_to_int", "LongPositionVector", ret=NAT)
        job(f_pv, pv.LongPositionVector.encode, "LongPositionVector_encode", "LongPositionVector", ret=BYTES)
        job(f_pv, pv.LongPositionVector.decode, "LongPositionVector_decode", "LongPositionVector", kind="classmethod",
            args=[("data", BYTES)], ret=R("LongPositionVector"))
        job(f_pv, pv.ShortPositionVector.encode_to_int, "ShortPositionVector_encode_to_int", "ShortPositionVector", ret=NAT)
        job(f_pv, pv.ShortPositionVector.encode, "ShortPositionVector_encode", "ShortPositionVector", ret=BYTES)
        job(f_pv, pv.ShortPositionVector.decode, "ShortPositionVector_decode", "ShortPositionVector", kind="classmethod",
            args=[("data", BYTES)], ret=R("ShortPositionVector"))
        # TST comparison / difference operators (C08): separate file without imports
        for op, ret in (("__gt__", BOOL), ("__ge__", BOOL), ("__lt__", BOOL), ("__le__", BOOL), ("__eq__", BOOL),
                        ("__sub__", INT), ("__add__", NAT)):
            fi = FuncInfo(getattr(pv.TST, op), "TST" + op.rstrip("_").replace("__", "_"), "TST", other=True, ret=ret)
            f_tst.jobs.append(fi)     # not registered in w.funcs: the operators call each other by inlining
    guarded(f_pv, setup_pv)
    if f_pv.error:
        f_tst.error = f_pv.error

    # ---------------------------------------------------------------- extended headers
    def setup_ext():
        from flexstack.geonet import gbc_extended_header as gbc, tsb_extended_header as tsb, guc_extended_header as guc, \
            ls_extended_header as ls
        hdr = [("sn", NAT), ("reserved", NAT), ("so_pv", R("LongPositionVector"))]
        w.add_record(gbc.GBCExtendedHeader, hdr + [("latitude", INT), ("longitude", INT), ("a", NAT), ("b", NAT),
                                                   ("angle", NAT), ("reserved2", NAT)])
        w.add_record(tsb.TSBExtendedHeader, hdr)
        w.add_record(guc.GUCExtendedHeader, hdr + [("de_pv", R("ShortPositionVector"))])
        w.add_record(ls.LSRequestExtendedHeader, hdr + [("request_gn_addr", R("GNAddress"))])
        w.add_record(ls.LSReplyExtendedHeader, hdr + [("de_pv", R("ShortPositionVector"))])
        for cls in (gbc.GBCExtendedHeader, tsb.TSBExtendedHeader, guc.GUCExtendedHeader, ls.LSRequestExtendedHeader,
                    ls.LSReplyExtendedHeader):
            n = cls.__name__
            job(f_ext, cls.encode, n + "_encode", n, ret=BYTES)
            job(f_ext, cls.decode, n + "_decode", n, kind="classmethod", args=[("header", BYTES)], ret=R(n))
    guarded(f_ext, setup_ext)

    # ---------------------------------------------------------------- btp_header.py
    def setup_btp():
        from flexstack.btp import btp_header as bt
        w.add_record(bt.BTPAHeader, [("destination_port", NAT), ("source_port", NAT)])
        w.add_record(bt.BTPBHeader, [("destination_port", NAT), ("destination_port_info", NAT)])
        for cls in (bt.BTPAHeader, bt.BTPBHeader):
            n = cls.__name__
            job(f_btp, cls.encode_to_int, n + "_encode_to_int", n, ret=NAT)
            job(f_btp, cls.encode, n + "_encode", n, ret=BYTES)
            job(f_btp, cls.decode, n + "_decode", n, kind="classmethod", args=[("data", BYTES)], ret=R(n))
    guarded(f_btp, setup_btp)

    # ---------------------------------------------------------------- router.get_sequence_number
    def setup_seq():
        from flexstack.geonet import router
        w.add_record(router.Router, [("sequence_number", NAT)], check=False)
        job(f_seq, router.Router.get_sequence_number, "Router_get_sequence_number", "Router", ret=NAT)
    guarded(f_seq, setup_seq)
    for f in fams:
        f.jobs = [j for j in f.jobs if j is not None]
    return w, fams


_CACHE = {}


def extract_all():
    """translate every family from the current source (once per process); returns (world, families)"""
    if "r" in _CACHE:
        return _CACHE["r"]
    w, fams = build()
    for fam in fams:
        for fi in fam.jobs:
            if fam.error:
                fi.status = f"extract-skipped: {fam.error}"
                continue
            try:
                fi.text = py2lean.translate_job(w, fi)
                fi.status = "extracted"
            except Unsupported as e:
                fi.status = f"extract-skipped: {e}"
            except Exception as e:  # noqa: BLE001   (translator bug / source the parser cannot read: a skip, never a verdict)
                fi.status = f"extract-skipped: translator error {type(e).__name__}: {e}"
    _CACHE["r"] = (w, fams)
    return w, fams


def family_ok(fam, by_key):
    """None if the family's bridge can be an obligation, else the reason"""
    if fam.error:
        return fam.error
    for fi in fam.jobs:
        if fi.status != "extracted":
            return f"{fi.lean} {fi.status}"
    for d in fam.deps:
        r = family_ok(by_key[d], by_key)
        if r:
            return f"dependency {d}: {r}"
    return None


def lean_file(fam):
    body = "".join(f"import {i}\n" for i in fam.imports)
    body += "set_option linter.unusedVariables false\n"
    body += "namespace Generated.Extracted\n"
    if "Generated.ExtractPrelude" in fam.imports:
        body += "open FlexModel.Wire\n"
    for fi in fam.jobs:
        if fi.status == "extracted":
            body += fi.text + "\n"
        else:
            body += f"-- {fi.status.replace(chr(10), ' ')} [{fi.lean}]\n"
    body += "end Generated.Extracted\n"
    return body


def generate(prop):
    """write the generated files of every family serving `prop` (and their dependencies); returns the report"""
    w, fams = extract_all()
    by_key = {f.key: f for f in fams}
    todo, report = [], {}

    def need(f):
        if f not in todo:
            for d in f.deps:
                need(by_key[d])
            todo.append(f)
    for f in fams:
        if prop is None or prop in f.props:
            need(f)
    with common.BuildLock():
        if any("Generated.ExtractPrelude" in f.imports for f in todo):
            write_if_changed("ExtractPrelude.lean", PRELUDE)
        for f in todo:
            write_if_changed(f.file + ".lean", lean_file(f))
    for f in todo:
        for fi in f.jobs:
            report[fi.lean] = fi.status
        if prop is None or prop in f.props:
            why = family_ok(f, by_key)
            report[f.bridge] = "obligation (built and audited in this run)" if why is None else f"not checked: {why}"
    report["not attempted"] = "; ".join(f"{k}: {v}" for k, v in NOT_ATTEMPTED.items())
    return report


def bridge_modules(prop):
    """Lean modules with bridge lemmas that are obligations of `prop` for the current source
    (called from harness/props/cXX.py: `MODULES = ["Props.Cxx"] + gen_extract.bridge_modules("Cxx")`).
    Does not read or write lean/Generated (works from a state where it does not exist yet).
    Never raises: any failure means "no bridge obligations" (logged by the generator at run time)."""
    try:
        import os
        w, fams = extract_all()      # in memory only: the files are (re)written by the registered generator under the build lock
        by_key = {f.key: f for f in fams}
        out = []
        for f in fams:
            if prop in f.props and family_ok(f, by_key) is None \
                    and os.path.exists(os.path.join(common.LEAN, *f.bridge.split(".")) + ".lean"):
                out.append(f.bridge)
        return out
    except Exception:  # noqa: BLE001
        return []


def _register(prop):
    @gen_lean.register(props=[prop])
    def gen():
        return generate(prop)
    gen.__name__ = f"gen_extracted_{prop}"
    return gen


for _p in ("C02", "C08", "C15", "C20"):
    _register(_p)

"""Generated/Extracted.lean: integer functions of the repository translated from their Python AST by py2lean
(DESIGN §3.C).  A function outside the translator's subset is emitted as a comment `-- extract-skipped` and the
corresponding bridge lemma guard `Extracted.have_<name>` is false, so bridge lemmas are stated conditionally on
nothing: a *missing* definition breaks the build of the bridge file, which the pipeline reports as a broken
obligation only for properties that import it."""
from __future__ import annotations

import gen_lean
from gen_lean import write_if_changed
import py2lean


def enum_table(*enums):
    return {e.__name__: {m.name: int(m.value) for m in e} for e in enums}


@gen_lean.register(props=["C20"])
def gen_extracted_lt():
    from flexstack.geonet.basic_header import LT, LTbase
    enums = enum_table(LTbase)
    body = "namespace Generated.Extracted\n"
    skipped = []
    jobs = [
        (LT.set_value_in_millis, "LT_set_value_in_millis", ["value"], ["multiplier", "base"]),
        (LT.get_value_in_millis, "LT_get_value_in_millis", ["multiplier", "base"], None),
    ]
    for func, name, params, ret in jobs:
        try:
            body += py2lean.translate(func, name, params, enums, ret, ty="Nat") + "\n"
        except py2lean.Unsupported as e:
            skipped.append(f"{name}: {e}")
            body += f"-- extract-skipped {name}: {e}\n"
    body += "end Generated.Extracted\n"
    write_if_changed("Extracted.lean", body)
    return skipped

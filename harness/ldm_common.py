"""Shared machinery of the LDM checks (C12, C13, C14): line-protocol serialisation, message generation through the
repository's real coders, and `RealLdm`, which drives a real LDMFactory-built facility under virtual clocks and
answers every operation with the same canonical line the Lean driver `Driver/Ldm.lean` prints.

Histories are JSON: {"cfg": {...}, "ops": [[name, ...], ...]}; data objects / reference values are carried in the
serialised form (`ser`) because they contain tuples and bytes.
"""
from __future__ import annotations

import contextlib
import copy
import io
import os
import shutil
import sys
import tempfile

import common  # noqa: F401  (repo on sys.path)
import realstack as rs

from flexstack.facilities.local_dynamic_map.factory import LDMFactory
from flexstack.facilities.local_dynamic_map import ldm_classes as K
import flexstack.facilities.local_dynamic_map.ldm_maintenance_reactive as mr_mod
import flexstack.facilities.local_dynamic_map.ldm_service_reactive as sr_mod

ITS_EPOCH_S = 1072915200      # 2004-01-01T00:00:00Z   (independent of the repo's constant; checked against it)
LEAP_S = 5
UTC0_MS = 1_700_000_000_000
MONO0_MS = 1_000_000


def now_its(utc_ms: int) -> int:
    """the LDM clock: whole UTC seconds, as ITS milliseconds"""
    return (utc_ms // 1000 - ITS_EPOCH_S + LEAP_S) * 1000


# ------------------------------------------------------------------ serialisation

_PLAIN = set("abcdefghijklmnopqrstuvwxyzABCDEFGHIJKLMNOPQRSTUVWXYZ0123456789_-.")


def ser_str(s: str) -> str:
    return s if set(s) <= _PLAIN else "%" + s.encode().hex()


def unser_str(a: str) -> str:
    return bytes.fromhex(a[1:]).decode() if a.startswith("%") else a


def ser(v) -> str:
    if v is None:
        return "N"
    if v is True:
        return "T"
    if v is False:
        return "F"
    if isinstance(v, int):
        return f"I{int(v)};"
    if isinstance(v, str):
        return "S" + ser_str(v) + ";"
    if isinstance(v, (bytes, bytearray)):
        return "B" + bytes(v).hex() + ";"
    if isinstance(v, list):
        return "L" + "".join(ser(x) for x in v) + ";"
    if isinstance(v, tuple):
        return "U" + "".join(ser(x) for x in v) + ";"
    if isinstance(v, dict):
        out = []
        for k, x in v.items():
            if not isinstance(k, str):
                raise TypeError(f"non-string key {k!r}")
            out.append("K" + ser_str(k) + ";" + ser(x))
        return "D" + "".join(out) + ";"
    raise TypeError(f"unserialisable {type(v).__name__}")


def deser(s: str):
    v, i = _parse(s, 0)
    if i != len(s):
        raise ValueError("trailing data")
    return v


def _until(s, i):
    j = s.index(";", i)
    return s[i:j], j + 1


def _parse(s, i):
    c = s[i]
    i += 1
    if c == "N":
        return None, i
    if c == "T":
        return True, i
    if c == "F":
        return False, i
    if c == "I":
        a, i = _until(s, i)
        return int(a), i
    if c == "S":
        a, i = _until(s, i)
        return unser_str(a), i
    if c == "B":
        a, i = _until(s, i)
        return bytes.fromhex(a), i
    if c in "LU":
        xs = []
        while s[i] != ";":
            x, i = _parse(s, i)
            xs.append(x)
        return (xs if c == "L" else tuple(xs)), i + 1
    if c == "D":
        d = {}
        while s[i] != ";":
            if s[i] != "K":
                raise ValueError("key expected")
            a, i = _until(s, i + 1)
            x, i = _parse(s, i)
            d[unser_str(a)] = x
        return d, i + 1
    raise ValueError(f"bad tag {c!r}")


LOC_FIELDS = ("lat", "lon", "majC", "minC", "majO", "alt", "altC", "radius", "relDist", "relDir")


def loc_tokens(loc: dict) -> str:
    return " ".join(str(int(loc[f])) for f in LOC_FIELDS)


def ser_record(d) -> str:
    """a stored container as returned by the LDM, in the model's `Record.ser` form"""
    try:
        rp = d["location"]["referencePosition"]
        ra = d["location"]["referenceArea"]
        pce = rp["positionConfidenceEllipse"]
        ga = ra["geometricArea"]
        if ga["rectangle"] is not None or ga["ellipse"] is not None or set(d.keys()) != {
                "application_id", "timestamp", "location", "dataObject", "timeValidity"}:
            raise KeyError("shape")
        loc = [rp["latitude"], rp["longitude"], pce["semiMajorConfidence"], pce["semiMinorConfidence"],
               pce["semiMajorOrientation"], rp["altitude"]["altitudeValue"], rp["altitude"]["altitudeConfidence"],
               ga["circle"]["radius"], ra["relevanceArea"]["relevanceDistance"],
               ra["relevanceArea"]["relevanceTrafficDirection"]]
        return ("{" + f"{int(d['application_id'])} {int(d['timestamp'])} " + " ".join(str(int(x)) for x in loc)
                + f" {int(d['timeValidity'])} " + ser(d["dataObject"]) + "}")
    except (KeyError, TypeError, ValueError):
        try:
            return "{?" + ser(d) + "}"
        except TypeError:
            return "{?unserialisable}"


def parse_record(tok: str) -> dict:
    """inverse of ser_record for well-formed records (used by the oracles)"""
    parts = tok[1:-1].split(" ")
    if len(parts) != 14:
        return {"malformed": tok}
    nums = [int(x) for x in parts[:13]]
    return {"app": nums[0], "ts": nums[1], "loc": dict(zip(LOC_FIELDS, nums[2:12])), "validity": nums[12],
            "obj": parts[13]}


OPS = {"==": "eq", "!=": "ne", ">": "gt", "<": "lt", ">=": "ge", "<=": "le", "like": "like", "notlike": "notlike"}
OPS_REAL = {"eq": K.ComparisonOperators.EQUAL, "ne": K.ComparisonOperators.NOT_EQUAL,
            "gt": K.ComparisonOperators.GREATER_THAN, "lt": K.ComparisonOperators.LESS_THAN,
            "ge": K.ComparisonOperators.GREATER_THAN_OR_EQUAL, "le": K.ComparisonOperators.LESS_THAN_OR_EQUAL,
            "like": K.ComparisonOperators.LIKE, "notlike": K.ComparisonOperators.NOT_LIKE}


def _hex(s: str) -> str:
    return ser_str(s)


def filter_token(f) -> str:
    """f: None | "!" | [stmt] | [stmt, "&"|"|"|"?", stmt];  stmt = [attr, op, refser]"""
    if f is None:
        return "-"
    if f == "!":
        return "!"

    def st(s):
        return f"{_hex(s[0])}~{s[1]}~{s[2]}"
    if len(f) == 1:
        return st(f[0])
    return st(f[0]) + f[1] + st(f[2])


def order_token(o) -> str:
    """o: None | "!" | {"kind": "L"|"U", "keys": [[attr, "a"|"d"], ...]}"""
    if o is None:
        return "-"
    if o == "!":
        return "!"
    if not o["keys"]:
        return "="
    return ",".join(f"{_hex(a)}:{d}" for a, d in o["keys"])


def act_token(act) -> str:
    """C14 callback action: None | "x" (raises) | ["u", app, k|None] (unsubscribes the k-th subscribe call's id) |
    ["d", app] (deregisters the consumer)"""
    if act is None:
        return "-"
    if act == "x":
        return "x"
    if act[0] == "u":
        return f"u{int(act[1])}:{opt(act[2])}"
    if act[0] == "d":
        return f"d{int(act[1])}"
    raise ValueError(f"unknown callback action {act!r}")


def csv(xs) -> str:
    return ",".join(str(int(x)) for x in xs) if xs else "-"


def opt(x) -> str:
    return "-" if x is None else str(int(x))


def op_line(op) -> str:
    """the model's input line for one operation"""
    n = op[0]
    if n in ("regp", "regc"):
        return " ".join([n, str(op[1])] + [str(p) for p in op[2]])
    if n in ("deregp", "deregc"):
        return f"{n} {op[1]}"
    if n == "add":
        _, app, ts, loc, validity, objser = op
        return f"add {app} {ts} {loc_tokens(loc)} {validity} {objser}"
    if n == "upd":
        return f"upd {op[1]} {op[2]} {op[3]}"
    if n == "del":
        return f"del {op[1]} {op[2]}"
    if n in ("req", "treq"):
        _, app, types, prio, order, flt = op
        return f"{n} {app} {csv(types)} {opt(prio)} {order_token(order)} {filter_token(flt)}"
    if n == "gc":
        return "gc"
    if n == "delv":                                     # C13 round 5: LDMMaintenance.del_provider_data(container)
        _, app, ts, loc, validity, objser = op
        return f"delv {app} {ts} {loc_tokens(loc)} {validity} {objser}"
    if n == "adv":
        return f"adv {op[1]}"
    if n == "sub":
        _, cb, app, types, prio, flt, notify, mult, order = op[:9]
        line = f"sub {cb} {app} {csv(types)} {opt(prio)} {filter_token(flt)} {opt(notify)} {opt(mult)} {order_token(order)}"
        if len(op) > 9 and op[9] is not None:           # C14: what the callback does when invoked (see act_token)
            line += " " + act_token(op[9])
        return line
    if n == "unsub":
        return f"unsub {op[1]} {opt(op[2])}"
    if n == "attend":
        return "attend"
    raise ValueError(f"unknown op {op!r}")


def init_line(cfg, variants) -> str:
    return (f"init {UTC0_MS} {MONO0_MS} {cfg['lat']} {cfg['lon']} {cfg['alt']} {cfg['relDist']} "
            f"{int(variants.get('areaFixed', 0))} {int(variants.get('gated', 0))} {int(variants.get('uniqueIds', 0))}")


# ------------------------------------------------------------------ real objects

def real_filter(f):
    if f is None:
        return None
    if f == "!":
        return ["not", "a", "filter"]

    def st(s):
        return K.FilterStatement(s[0], OPS_REAL[s[1]], deser(s[2]))
    if len(f) == 1:
        return K.Filter(st(f[0]))
    lop = {"&": K.LogicalOperators.AND, "|": K.LogicalOperators.OR, "?": None}[f[1]]
    return K.Filter(st(f[0]), lop, st(f[2]))


def real_order(o, bad_direction=False):
    if o is None:
        return None
    if o == "!":
        if bad_direction:
            return (K.OrderTupleValue("header.stationId", 7),)   # not an OrderingDirection
        return (1,)                                              # a tuple that holds no OrderTupleValue
    keys = [K.OrderTupleValue(a, K.OrderingDirection.ASCENDING if d == "a" else K.OrderingDirection.DESCENDING)
            for a, d in o["keys"]]
    return keys if o.get("kind") == "L" else tuple(keys)


def real_location(loc):
    return K.Location.initializer(
        latitude=loc["lat"], longitude=loc["lon"], semi_major_confidence=loc["majC"],
        semi_major_orientation=loc["majO"], semi_minor_confidence=loc["minC"], altitude_value=loc["alt"],
        altitude_confidence=loc["altC"], radius=loc["radius"], relevance_distance=loc["relDist"],
        relevance_traffic_direction=loc["relDir"])


class _FakeTime:
    """stand-in for the `time` module inside ldm_*_reactive: only monotonic() is used there"""

    def __init__(self, ldm):
        self._ldm = ldm

    def monotonic(self):
        return self._ldm.mono_ms / 1000.0

    def time(self):
        return self._ldm.clock.ms / 1000.0

    def sleep(self, d):
        self._ldm.advance(int(d * 1000))


class RealLdm:
    """A real LDM facility (LDMFactory; Reactive maintenance and service) under virtual clocks.
    Clock steps must be multiples of 125 ms so that the float seconds the code sees are exact."""

    def __init__(self, cfg, backend="Dictionary"):
        self.cfg = cfg
        self.backend = backend
        self.clock = rs.VClock(UTC0_MS)
        self.mono_ms = MONO0_MS
        self.calls = []
        self.sub_ids = []        # real subscription id of every successful subscribe, in order
        self._tmp = None
        self._saved = None

    def __enter__(self):
        self.clock.install()
        self._saved = (mr_mod.time, sr_mod.time)
        fake = _FakeTime(self)
        mr_mod.time = fake
        sr_mod.time = fake
        try:
            area = K.Location.initializer(latitude=self.cfg["lat"], longitude=self.cfg["lon"],
                                          altitude_value=self.cfg["alt"], relevance_distance=self.cfg["relDist"])
            if self.backend == "TinyDB":
                self._tmp = tempfile.mkdtemp(prefix="verif_ldm_")
                cwd = os.getcwd()
                os.chdir(self._tmp)
                try:
                    self.ldm = LDMFactory().create_ldm(area, "Reactive", "Reactive", "TinyDB")
                finally:
                    os.chdir(cwd)
            else:
                self.ldm = LDMFactory().create_ldm(area, "Reactive", "Reactive", "Dictionary")
        except BaseException:
            self.__exit__(None, None, None)
            raise
        self.i3, self.i4 = self.ldm.if_ldm_3, self.ldm.if_ldm_4
        return self

    def __exit__(self, *a):
        if self._saved is not None:
            mr_mod.time, sr_mod.time = self._saved
            self._saved = None
        self.clock.uninstall()
        if self._tmp is not None:
            try:
                self.ldm.ldm_maintenance.data_containers.database.close()
            except Exception:
                pass
            shutil.rmtree(self._tmp, ignore_errors=True)
            self._tmp = None

    # ---- helpers
    def advance(self, ms):
        self.clock.advance(ms)
        self.mono_ms += ms

    def now_its(self):
        return now_its(self.clock.ms)

    def _callback(self, cb, act=None):
        def fn(resp, cb=cb, act=act):
            self.calls.append((cb, int(resp.application_id), tuple(resp.data_objects)))
            # C14: a callback may raise or re-enter IF.LDM.4 (after having recorded what it received)
            if act == "x":
                raise RuntimeError("callback failure injected by the harness")
            if act is not None and act[0] == "u":
                k = act[2]
                sid = self.sub_ids[k] if (k is not None and k < len(self.sub_ids)) else 987654321987
                self.i4.unsubscribe_data_consumer(K.UnsubscribeDataConsumerReq(act[1], sid))
            elif act is not None and act[0] == "d":
                self.i4.deregister_data_consumer(K.DeregisterDataConsumerReq(act[1]))
        return fn

    def stored(self):
        """direct view of the database content (records in store order), for oracles"""
        return [dict(d) for d in self.ldm.ldm_maintenance.data_containers.all()]

    def state_line(self, full=False) -> str:
        """C12: the `state` / `dump` line of the Lean driver for the real facility: identifier counter of the
        Dictionary back-end, both registries (sorted), ids of the stored rows in store order (+ the rows for dump).
        A field that cannot be read (back-end without `_next_id` / `database` dict) is printed as `?` (not compared)."""
        svc = self.ldm.ldm_service
        db = self.ldm.ldm_maintenance.data_containers
        nxt = getattr(db, "_next_id", None)
        store = getattr(db, "database", None)
        ids = list(store.keys()) if isinstance(store, dict) else None
        head = (f"s n={'?' if not isinstance(nxt, int) else nxt} p={csv(sorted(svc.data_provider_its_aid))} "
                f"c={csv(sorted(svc.data_consumer_its_aid))} i={'?' if ids is None else csv(ids)}")
        if full and ids is not None:
            return " ".join([head] + [f"{i}:" + ser_record(store[i]) for i in ids])
        return head

    # ---- one operation -> canonical line
    def apply(self, op) -> str:
        self.calls = []
        buf = io.StringIO()
        old = sys.stdout
        sys.stdout = buf
        try:
            try:
                out = self._apply(op)
            except Exception as e:      # an exception escaping an interface call is an observable outcome
                out = "x " + type(e).__name__
        finally:
            sys.stdout = old
        for cb, app, objs in self.calls:
            out += f" @{cb}:{app}[" + " ".join(ser_record(o) for o in objs) + "]"
        return out

    def _apply(self, op) -> str:
        n = op[0]
        ts_now = K.TimestampIts(self.now_its())
        if n == "regp":
            r = self.i3.register_data_provider(K.RegisterDataProviderReq(op[1], tuple(op[2]), K.TimeValidity(1000)))
            return f"c {int(r.result)}"
        if n == "deregp":
            r = self.i3.deregister_data_provider(K.DeregisterDataProviderReq(op[1]))
            return f"c {int(r.result)}"
        if n == "regc":
            r = self.i4.register_data_consumer(K.RegisterDataConsumerReq(op[1], tuple(op[2]), None))
            return f"c {int(r.result)}"
        if n == "deregc":
            r = self.i4.deregister_data_consumer(K.DeregisterDataConsumerReq(op[1]))
            return f"c {int(r.ack)}"
        if n == "add":
            _, app, ts, loc, validity, objser = op
            r = self.i3.add_provider_data(K.AddDataProviderReq(app, K.TimestampIts(ts), real_location(loc),
                                                               deser(objser), K.TimeValidity(validity)))
            return f"c {int(r.data_object_id)}"
        if n == "upd":
            loc = K.Location.initializer()
            r = self.i3.update_provider_data(K.UpdateDataProviderReq(op[1], op[2], ts_now, loc, deser(op[3]),
                                                                     K.TimeValidity(1)))
            return f"c {int(r.result)}"
        if n == "del":
            r = self.i3.delete_provider_data(K.DeleteDataProviderReq(op[1], op[2], ts_now))
            return f"c {int(r.result)}"
        if n in ("req", "treq"):
            _, app, types, prio, order, flt = op
            r = self.i4.request_data_objects(K.RequestDataObjectsReq(app, tuple(types), prio, real_order(order),
                                                                     real_filter(flt)))
            if int(r.result) != 0:
                return f"r {int(r.result)}"
            return " ".join(["ok"] + [ser_record(o) for o in r.data_objects])
        if n == "gc":
            self.ldm.ldm_maintenance.collect_trash()
            return "-"
        if n == "delv":
            # C13 round 5: removal BY VALUE, as the maintenance passes do it: `del_provider_data(container)` with the
            # container in the form the back-end returns it (what add_provider_data stored; its JSON image on TinyDB)
            _, app, ts, loc, validity, objser = op
            cont = K.AddDataProviderReq(app, K.TimestampIts(ts), real_location(loc), deser(objser),
                                        K.TimeValidity(validity)).to_dict()
            if self.backend == "TinyDB":
                import json
                cont = json.loads(json.dumps(cont))
            self.ldm.ldm_maintenance.del_provider_data(cont)
            return "-"
        if n == "adv":
            if op[1] % 125:
                raise common.Infra("clock steps must be multiples of 125 ms")
            self.advance(op[1])
            return "-"
        if n == "sub":
            _, cb, app, types, prio, flt, notify, mult, order = op[:9]
            req = K.SubscribeDataobjectsReq(
                application_id=app, data_object_type=tuple(types), priority=prio, filter=real_filter(flt),
                notify_time=None if notify is None else K.TimestampIts(notify), multiplicity=mult,
                order=real_order(order, bad_direction=True))
            r = self.i4.subscribe_data_consumer(req, self._callback(cb, op[9] if len(op) > 9 else None))
            if int(r.result) != 0:
                return f"c {int(r.result)}"
            sid = r.subscription_id
            k = self.sub_ids.index(sid) if sid in self.sub_ids else len(self.sub_ids)
            self.sub_ids.append(sid)
            return f"c 0 {k}"
        if n == "unsub":
            k = op[2]
            sid = self.sub_ids[k] if (k is not None and k < len(self.sub_ids)) else 987654321987
            r = self.i4.unsubscribe_data_consumer(K.UnsubscribeDataConsumerReq(op[1], sid))
            return f"c {int(r.result)}"
        if n == "attend":
            self.ldm.ldm_service.attend_subscriptions()
            return "-"
        raise common.Infra(f"unknown op {op!r}")


def split_line(line: str):
    """canonical line -> (head tokens, [record tokens], [(cb, app, [record tokens])])"""
    main, *calls = line.split(" @")
    toks = main.split(" ")
    head, recs = toks, []
    if toks and toks[0] == "ok":
        head, recs = ["ok"], _records(" ".join(toks[1:]))
    out_calls = []
    for c in calls:
        hd, body = c.split("[", 1)
        cb, app = hd.split(":")
        out_calls.append((int(cb), int(app), _records(body[:-1])))
    return head, recs, out_calls


def _records(s: str):
    out, i = [], 0
    while i < len(s):
        if s[i] == "{":
            j = s.index("}", i)
            out.append(s[i:j + 1])
            i = j + 1
        else:
            i += 1
    return out


# ------------------------------------------------------------------ messages from the real coders

_CODERS = {}


def coders():
    if not _CODERS:
        from flexstack.facilities.ca_basic_service.cam_coder import CAMCoder
        from flexstack.facilities.vru_awareness_service.vam_coder import VAMCoder
        from flexstack.facilities.decentralized_environmental_notification_service.denm_coder import DENMCoder
        _CODERS.update(cam=CAMCoder(), vam=VAMCoder(), denm=DENMCoder())
    return _CODERS


def make_message(rng, kind, optional=None):
    """a CAM / VAM / DENM dictionary as the reception path hands it to the LDM: built from the repository's white
    template, randomised, encoded and decoded again by the repository's coder.  `optional` in/excludes the optional
    containers (None = random)."""
    from flexstack.facilities.ca_basic_service.cam_transmission_management import CooperativeAwarenessMessage
    from flexstack.facilities.vru_awareness_service.vam_transmission_management import VAMMessage
    from flexstack.facilities.decentralized_environmental_notification_service.denm_transmission_management import (
        DecentralizedEnvironmentalNotificationMessage)
    if optional is None:
        optional = rng.random() < 0.5
    sid = rng.choice([1, 2, 3, 7, 7, 42, 4294967295, rng.randrange(0, 2 ** 32)])
    lat = rng.choice([415000000, 415000100, -338000000, rng.randrange(-900000000, 900000001)])
    lon = rng.choice([21000000, 21000100, -1234567, rng.randrange(-1800000000, 1800000001)])
    if kind == "cam":
        m = CooperativeAwarenessMessage.generate_white_cam_static()
        m["header"]["stationId"] = sid
        m["cam"]["generationDeltaTime"] = rng.choice([0, 1, 100, 65535, rng.randrange(65536)])
        bc = m["cam"]["camParameters"]["basicContainer"]
        bc["stationType"] = rng.choice([0, 5, 5, 6, 15, rng.randrange(0, 16)])
        bc["referencePosition"]["latitude"], bc["referencePosition"]["longitude"] = lat, lon
        hf = m["cam"]["camParameters"]["highFrequencyContainer"][1]
        hf["speed"]["speedValue"] = rng.choice([0, 100, 1389, 16383, rng.randrange(0, 16384)])
        hf["heading"]["headingValue"] = rng.choice([0, 900, 3601, rng.randrange(0, 3602)])
        if optional:
            m["cam"]["camParameters"]["lowFrequencyContainer"] = (
                "basicVehicleContainerLowFrequency",
                {"vehicleRole": rng.choice(["default", "publicTransport", "emergency"]),
                 "exteriorLights": (bytes([rng.randrange(256)]), 8), "pathHistory": []})
        coder = coders()["cam"]
    elif kind == "vam":
        m = VAMMessage.generate_white_vam_static()
        m["header"]["stationId"] = sid
        m["vam"]["generationDeltaTime"] = rng.choice([0, 1, 100, 65535, rng.randrange(65536)])
        bc = m["vam"]["vamParameters"]["basicContainer"]
        bc["stationType"] = rng.choice([1, 2, 2, 15])
        bc["referencePosition"]["latitude"], bc["referencePosition"]["longitude"] = lat, lon
        m["vam"]["vamParameters"]["vruHighFrequencyContainer"]["speed"]["speedValue"] = rng.choice(
            [0, 100, 16383, rng.randrange(0, 16384)])
        if optional:
            m["vam"]["vamParameters"]["vruLowFrequencyContainer"] = {
                "profileAndSubprofile": ("pedestrian", rng.choice(["ordinary-pedestrian", "road-worker"]))}
        coder = coders()["vam"]
    elif kind == "denm":
        m = DecentralizedEnvironmentalNotificationMessage().generate_white_denm()
        m["header"]["stationId"] = sid
        mg = m["denm"]["management"]
        mg["actionId"]["originatingStationId"] = sid
        mg["actionId"]["sequenceNumber"] = rng.choice([0, 1, 65535, rng.randrange(65536)])
        mg["eventPosition"]["latitude"], mg["eventPosition"]["longitude"] = lat, lon
        mg["stationType"] = rng.choice([0, 5, 15])
        mg["validityDuration"] = rng.choice([0, 600, 86400])
        if optional:
            m["denm"]["situation"] = {"informationQuality": rng.randrange(0, 8),
                                      "eventType": {"ccAndScc": ("accident2", rng.randrange(0, 8))}}
        coder = coders()["denm"]
    else:
        raise ValueError(kind)
    with rs.quiet():
        return coder.decode(coder.encode(m))


def leaf_paths(obj, prefix=""):
    """(dotted path, value) of everything reachable through dictionaries, inner nodes included"""
    out = []
    if isinstance(obj, dict):
        for k, v in obj.items():
            p = f"{prefix}.{k}" if prefix else k
            out.append((p, v))
            out.extend(leaf_paths(v, p))
    return out

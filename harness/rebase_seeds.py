#!/venv/bin/python
"""lead tool: re-base seeded patches that no longer apply cleanly to /repo HEAD (after `fix:` commits) with a 3-way
apply in a scratch worktree, then re-verify them with seed_verify.py (suite still passes, demo fails only with the
change).  usage: rebase_seeds.py [<seed-id> ...]   (default: every seed whose patch does not apply cleanly)"""
import json, os, shutil, subprocess, sys, tempfile
VERIF = os.path.dirname(os.path.dirname(os.path.abspath(__file__)))


def sh(cmd, **kw):
    return subprocess.run(cmd, shell=True, capture_output=True, text=True, **kw)


def main():
    seeds = sys.argv[1:]
    if not seeds:
        for sid in sorted(os.listdir(os.path.join(VERIF, "seeded"))):
            p = os.path.join(VERIF, "seeded", sid, "patch.diff")
            if os.path.exists(p) and sh(f"git -C /repo apply --check {p}").returncode != 0:
                seeds.append(sid)
    head = sh("git -C /repo rev-parse --short HEAD").stdout.strip()
    for sid in seeds:
        d = os.path.join(VERIF, "seeded", sid)
        wt = tempfile.mkdtemp(prefix="rb_", dir="/tmp"); os.rmdir(wt)
        assert sh(f"git -C /repo worktree add -q --detach {wt} HEAD").returncode == 0
        tmp = tempfile.mkdtemp(prefix="rbout_", dir="/tmp")
        try:
            r = sh(f"git -C {wt} apply --3way {d}/patch.diff")
            if r.returncode != 0 or "U " in sh(f"git -C {wt} status --short").stdout:
                print(f"{sid}: 3-way apply failed / conflicts: {r.stderr.strip()[:200]}"); continue
            diff = sh(f"git -C {wt} diff HEAD").stdout
            if not diff.strip():
                print(f"{sid}: empty diff after 3-way apply (change already in HEAD?)"); continue
            open(os.path.join(tmp, "patch.diff"), "w").write(diff)
            shutil.copy(os.path.join(d, "demo.py"), os.path.join(tmp, "demo.py"))
            meta = json.load(open(os.path.join(d, "meta.json")))
            meta["rebased_on"] = head
            json.dump(meta, open(os.path.join(tmp, "meta.json"), "w"), indent=1)
        finally:
            sh(f"git -C /repo worktree remove --force {wt}")
        r = sh(f"/venv/bin/python {VERIF}/harness/seed_verify.py {tmp} {sid}")
        print(f"{sid}: {r.stdout.strip().splitlines()[-1] if r.stdout.strip() else r.stderr[-200:]}", flush=True)
        shutil.rmtree(tmp, ignore_errors=True)
    sh("git -C /repo worktree prune")


if __name__ == "__main__":
    main()

#!/venv/bin/python
"""setup: regenerate lean/Generated and build the Lean targets of every check registered in MANIFEST.json
(only those: work-in-progress modules of properties that are not registered yet cannot break the setup)."""
import importlib
import json
import os
import sys

sys.path.insert(0, os.path.dirname(os.path.abspath(__file__)))
import common  # noqa: E402
import gen_lean  # noqa: E402


def main():
    os.environ["VERIF_GEN_WIRE"] = "1"     # setup writes EVERY generated file (gen_wire otherwise only writes on C02 runs)
    gen_lean.generate_all()
    man = json.load(open(os.path.join(common.VERIF, "MANIFEST.json")))
    targets = ["FlexModel.Audit"]
    for c in man["checks"]:
        mod = importlib.import_module("props." + c["property_id"].lower())
        targets += list(getattr(mod, "MODULES", ["Props." + c["property_id"]]))
        targets += ["Driver." + d for d in getattr(mod, "DRIVERS", [])]
    targets = sorted(set(targets))
    ok, log = common.lake_build(targets)
    print(log[-3000:])
    print("setup: built" if ok else "setup: BUILD FAILED", " ".join(targets))
    return 0 if ok else 1


if __name__ == "__main__":
    sys.exit(main())

"""Generated/AreaFacts.lean (property C07): structural facts about the geo-area decisions of
`flexstack.geonet.router.Router`, re-read from the current source on every run by an `ast` pass.

1. Area size control (Annex B.3).  For the source operation `gn_data_request_gbc` (and `gn_data_request_gac`, which
   must either delegate to it or carry its own guard) and the two receive handlers `gn_data_indicate_gbc` /
   `gn_data_indicate_gac`: is there a guard `if <_compute_area_size_m2(...)> > self.mib.itsGnMaxGeoAreaSize * F: return`,
   does it sit in the function's top-level statement list (or the top-level `try` body), does its body end in a
   `return`, which comparison operator and factor does it use, and HOW MANY EFFECTS PRECEDE IT in source order
   (source operation: any `return`, `get_sequence_number`, `link_layer.send`, sign call; receive handlers: any
   transmission / forwarder call).  The model `Area.srcRequest` tests the size FIRST; `Props.C07.size_control_first_of_source`
   discharges the facts by `decide`, so moving the guard below an early `return ACCEPTED` re-opens the obligation.

2. Position-vector snapshots.  A LocTE's `position_vector` and the router's `ego_position_vector` are immutable objects
   that other threads REPLACE (reception of the next frame of that station / GPS update).  A decision that reads
   `.pai`, `.latitude`, `.longitude` through separate loads of the attribute can combine fields of two different
   vectors.  For every decision function the pass counts, per object (each local bound to a
   `location_table.get_entry(...)` result; `self.ego_position_vector`), the number of loads of the vector.
   `Props.C07.position_vectors_read_once_of_source` requires every count to be <= 1 (`decide`).

3. Whose vector is Annex D's PV_SE.  For `gn_forwarding_algorithm_selection` and `gn_data_indicate_gac`: for every call of
   `gn_geometric_function_f`, where its latitude/longitude arguments come from: the ego vector, a LOCATION TABLE entry's
   vector, or the SO PV of the packet header.  After out-of-order receptions the table holds a newer vector than the
   header (annex C.2); `Props.C07.annexD_sender_vector_from_location_table_of_source` requires [ego, locT] in both.

4. (round 6) The geometric function is a FUNCTION of its arguments.  For `gn_geometric_function_f` and the helpers it is
   built from (`calculate_distance`, `rotate_to_area_frame`): every write of state that outlives the call (assignment /
   augmented assignment / `del` to an attribute or subscript of `self`, `cls`, `Router` or a module global, `global` /
   `nonlocal` statements, calls of mutating container methods or `setattr` on them), every READ of instance / class data
   attributes (anything loaded from `self`/`cls`/`Router` that is not called as a method), and every decorator (a memoising
   decorator is state too).  `Props.C07.geometric_function_is_stateless_of_source` requires all three lists to be empty
   (`decide`): a "last projection" cache on the instance (seeded change C07-m12) re-opens the obligation.

5. (round 6) The bit layout of the word `PAI | S | H` in `LongPositionVector.encode` / `encode_to_int`: for each of the two
   functions the shift of the PAI flag, the width and shift of the two's complement speed field.  `Props.C07.
   pai_bit_layout_of_source` requires (31, 15, 16) in both: a 16 bit speed field (seeded change C07-m11) overlaps the PAI bit.
"""
from __future__ import annotations

import ast

import gen_lean
from gen_lean import src, write_if_changed

REQUEST_FNS = ["gn_data_request_gbc", "gn_data_request_gac"]
RX_FNS = ["gn_data_indicate_gbc", "gn_data_indicate_gac"]
# functions that take a delivery / forwarding / Annex D decision from position vectors
DECISION_FNS = ["gn_forwarding_algorithm_selection", "gn_data_indicate_gbc", "gn_data_indicate_gac", "gn_data_forward_gbc"]
TX_CALLS = {"send", "gn_data_forward_gbc", "gn_area_cbf_forwarding", "gn_greedy_forwarding", "_forward_pdu"}
SRC_EFFECT_CALLS = {"send", "get_sequence_number", "sign_request", "sign_denm", "gn_forwarding_algorithm_selection",
                    "gn_greedy_forwarding"}


def _router_functions():
    tree = ast.parse(src("geonet/router.py"))
    for n in tree.body:
        if isinstance(n, ast.ClassDef) and n.name == "Router":
            return {f.name: f for f in n.body if isinstance(f, (ast.FunctionDef, ast.AsyncFunctionDef))}
    raise AssertionError("class Router not found in geonet/router.py")


def _mentions(node, name):
    return any((isinstance(x, ast.Attribute) and x.attr == name) or (isinstance(x, ast.Name) and x.id == name)
               for x in ast.walk(node))


def _is_size_guard(node):
    return (isinstance(node, ast.If) and isinstance(node.test, ast.Compare) and _mentions(node.test, "_compute_area_size_m2")
            and _mentions(node.test, "itsGnMaxGeoAreaSize"))


def _call_name(call):
    f = call.func
    return f.attr if isinstance(f, ast.Attribute) else (f.id if isinstance(f, ast.Name) else None)


def _pos(n):
    return (n.lineno, n.col_offset)


def _body_without_doc(fn):
    body = list(fn.body)
    if body and isinstance(body[0], ast.Expr) and isinstance(getattr(body[0], "value", None), ast.Constant) \
            and isinstance(body[0].value.value, str):
        body = body[1:]
    return body


def size_guard_facts(fn, effect_calls, returns_are_effects):
    """dict(present, toplevel, refuses, cmpGt, factor, effectsBefore, refusalCode)"""
    guards = [n for n in ast.walk(fn) if _is_size_guard(n)]
    out = dict(present=bool(guards), toplevel=False, refuses=False, cmpGt=False, factor=0, effectsBefore=0, refusalCode=False,
               count=len(guards))
    if not guards:
        return out
    g = min(guards, key=_pos)
    body = _body_without_doc(fn)
    lists = [body] + [s.body for s in body if isinstance(s, ast.Try)]
    out["toplevel"] = any(g in lst for lst in lists)
    out["refuses"] = bool(g.body) and isinstance(g.body[-1], ast.Return) and not g.orelse
    out["refusalCode"] = _mentions(g, "GEOGRAPHICAL_SCOPE_TOO_LARGE")
    cmp_ = g.test
    out["cmpGt"] = len(cmp_.ops) == 1 and isinstance(cmp_.ops[0], ast.Gt) and _mentions(cmp_.left, "_compute_area_size_m2")
    rhs = cmp_.comparators[0] if cmp_.comparators else None
    if isinstance(rhs, ast.BinOp) and isinstance(rhs.op, ast.Mult):
        for side in (rhs.left, rhs.right):
            if isinstance(side, ast.Constant) and isinstance(side.value, int):
                out["factor"] = side.value
    n = 0
    for x in ast.walk(fn):
        if x is g or not hasattr(x, "lineno") or _pos(x) >= _pos(g):
            continue
        if returns_are_effects and isinstance(x, ast.Return):
            n += 1
        elif isinstance(x, ast.Call) and _call_name(x) in effect_calls:
            n += 1
    out["effectsBefore"] = n
    return out


def delegates_to(fn, target):
    """the function's body (after the doc string) is the single statement `return self.<target>(request)`"""
    body = _body_without_doc(fn)
    return (len(body) == 1 and isinstance(body[0], ast.Return) and isinstance(body[0].value, ast.Call)
            and _call_name(body[0].value) == target)


def pv_loads(fn):
    """[(object, loads)]: loads of `<entry>.position_vector` per local bound to a get_entry() result, and of
    `self.ego_position_vector`, inside `fn`"""
    entries = []
    for x in ast.walk(fn):
        if isinstance(x, ast.Assign) and isinstance(x.value, ast.Call) and _call_name(x.value) == "get_entry":
            for t in x.targets:
                if isinstance(t, ast.Name) and t.id not in entries:
                    entries.append(t.id)
    out = []
    for e in entries:
        n = sum(1 for x in ast.walk(fn) if isinstance(x, ast.Attribute) and x.attr == "position_vector"
                and isinstance(x.ctx, ast.Load) and isinstance(x.value, ast.Name) and x.value.id == e)
        out.append((f"LocTE#{len(out)}.position_vector", n))       # ordinal, not the local's name: a rename is harmless
    n = sum(1 for x in ast.walk(fn) if isinstance(x, ast.Attribute) and x.attr == "ego_position_vector"
            and isinstance(x.ctx, ast.Load) and isinstance(x.value, ast.Name) and x.value.id == "self")
    out.append(("self.ego_position_vector", n))
    return out


def _origin_of_expr(expr, entries):
    """where a position-vector expression comes from: 'ego' (self.ego_position_vector), 'locT' (the `.position_vector` of
    a local bound to a get_entry() result), 'header' (an `.so_pv` of a decoded header), 'other'"""
    kinds = set()
    for x in ast.walk(expr):
        if isinstance(x, ast.Attribute):
            if x.attr == "ego_position_vector":
                kinds.add("ego")
            elif x.attr == "position_vector" and isinstance(x.value, ast.Name) and x.value.id in entries:
                kinds.add("locT")
            elif x.attr in ("so_pv", "de_pv"):
                kinds.add("header")
    return kinds.pop() if len(kinds) == 1 else ("other" if not kinds else "+".join(sorted(kinds)))


def f_arg_origins(fn):
    """for every call of `gn_geometric_function_f` inside `fn`, in source order: where the position it is evaluated at
    comes from (latitude and longitude arguments; both must have the same origin).  A local (`ego_pv`, `so_pv`, ...) is
    resolved through ALL its assignments inside the function; names are not part of the result."""
    entries, assigns = [], {}
    for x in ast.walk(fn):
        if isinstance(x, ast.Assign) and len(x.targets) == 1 and isinstance(x.targets[0], ast.Name):
            assigns.setdefault(x.targets[0].id, []).append(x.value)
            if isinstance(x.value, ast.Call) and _call_name(x.value) == "get_entry":
                entries.append(x.targets[0].id)

    def origin(arg):
        # <local>.latitude / <local>.longitude -> the origin of the local; anything else -> the expression itself
        if isinstance(arg, ast.Attribute) and isinstance(arg.value, ast.Name) and arg.value.id in assigns:
            # `x = None` (the "no vector" default) is not an origin
            ks = {_origin_of_expr(v, entries) for v in assigns[arg.value.id]
                  if not (isinstance(v, ast.Constant) and v.value is None)} or {"other"}
            return ks.pop() if len(ks) == 1 else "+".join(sorted(ks))
        return _origin_of_expr(arg, entries)
    out = []
    calls = sorted((x for x in ast.walk(fn) if isinstance(x, ast.Call) and _call_name(x) == "gn_geometric_function_f"), key=_pos)
    for c in calls:
        args = list(c.args) + [k.value for k in c.keywords]
        ks = [origin(a) for a in args[2:4]]
        out.append(ks[0] if len(ks) == 2 and ks[0] == ks[1] else "mixed:" + "/".join(ks))
    return out


F_FNS = ["gn_geometric_function_f", "calculate_distance", "rotate_to_area_frame"]
MUTATORS = {"append", "extend", "insert", "update", "setdefault", "pop", "popitem", "clear", "add", "remove", "discard",
            "__setitem__", "__setattr__", "appendleft", "sort", "reverse"}
OWNERS = {"self", "cls", "Router"}


def _root_name(x):
    while isinstance(x, (ast.Attribute, ast.Subscript)):
        x = x.value
    return x.id if isinstance(x, ast.Name) else None


def statefulness(fn):
    """(writes, reads, decorators) of one function, as sorted lists of strings"""
    writes, reads = set(), set()
    params = {a.arg for a in fn.args.args + fn.args.kwonlyargs + fn.args.posonlyargs}
    locals_ = set(params)
    for x in ast.walk(fn):
        if isinstance(x, ast.Name) and isinstance(x.ctx, ast.Store):
            locals_.add(x.id)
    called = {id(x.func) for x in ast.walk(fn) if isinstance(x, ast.Call)}
    for x in ast.walk(fn):
        if isinstance(x, (ast.Global, ast.Nonlocal)):
            writes.update("global " + n for n in x.names)
        elif isinstance(x, (ast.Attribute, ast.Subscript)) and isinstance(x.ctx, (ast.Store, ast.Del)):
            root = _root_name(x)
            if root in OWNERS or root not in locals_ or root in params:      # state reachable from outside the call
                writes.add(ast.unparse(x))
        elif isinstance(x, ast.Call):
            n = _call_name(x)
            if n in ("setattr", "delattr"):
                writes.add(ast.unparse(x.func) + "(" + (ast.unparse(x.args[0]) if x.args else "") + ")")
            elif n in MUTATORS and isinstance(x.func, ast.Attribute) and (_root_name(x.func.value) in OWNERS
                                                                          or _root_name(x.func.value) not in locals_):
                writes.add(ast.unparse(x.func))
        if isinstance(x, ast.Attribute) and isinstance(x.ctx, ast.Load) and isinstance(x.value, ast.Name) \
                and x.value.id in OWNERS and id(x) not in called:
            reads.add(ast.unparse(x))
    decos = sorted(ast.unparse(d) for d in fn.decorator_list if ast.unparse(d) not in ("staticmethod", "classmethod"))
    return sorted(writes), sorted(reads), decos


def lpv_layout():
    """[(function, pai shift, speed bits, speed shift)] for LongPositionVector.encode / encode_to_int; -1 = not found"""
    tree = ast.parse(src("geonet/position_vector.py"))
    out = []
    for n in tree.body:
        if isinstance(n, ast.ClassDef) and n.name == "LongPositionVector":
            for f in n.body:
                if isinstance(f, ast.FunctionDef) and f.name in ("encode", "encode_to_int"):
                    pai, bits, shift = -1, -1, -1
                    for x in ast.walk(f):
                        if isinstance(x, ast.BinOp) and isinstance(x.op, ast.LShift) and isinstance(x.right, ast.Constant):
                            if _mentions(x.left, "pai"):
                                pai = x.right.value if pai == -1 else -2
                            call = x.left if isinstance(x.left, ast.Call) else None
                            if call is not None and _call_name(call) == "_to_twos_complement" and call.args and _mentions(call.args[0], "s") \
                                    and isinstance(call.args[0], ast.Attribute) and call.args[0].attr == "s":
                                b = call.args[1].value if len(call.args) > 1 and isinstance(call.args[1], ast.Constant) else -1
                                bits, shift = (b, x.right.value) if bits == -1 else (-2, -2)
                    out.append((f.name, pai, bits, shift))
    return sorted(out)


def analyse():
    fns = _router_functions()
    info = {"guards": {}, "loads": [], "gacDelegates": False, "fArgs": [], "fState": [], "lpv": lpv_layout()}
    for name in F_FNS:
        if name in fns:
            w, r, d = statefulness(fns[name])
            info["fState"].append((name, w, r, d))
    for name in ("gn_forwarding_algorithm_selection", "gn_data_indicate_gac"):
        if name in fns:
            info["fArgs"].append((name, f_arg_origins(fns[name])))
    for name in REQUEST_FNS:
        if name in fns:
            info["guards"][name] = size_guard_facts(fns[name], SRC_EFFECT_CALLS, True)
    for name in RX_FNS:
        if name in fns:
            info["guards"][name] = size_guard_facts(fns[name], TX_CALLS, False)
    if "gn_data_request_gac" in fns:
        info["gacDelegates"] = delegates_to(fns["gn_data_request_gac"], "gn_data_request_gbc")
    for name in DECISION_FNS:
        if name in fns:
            for obj, n in pv_loads(fns[name]):
                info["loads"].append((name, obj, n))
    return info


def _b(x):
    return "true" if x else "false"


@gen_lean.register(props=["C07"])
def gen_area_facts():
    info = analyse()
    body = "namespace Generated.AreaFacts\n"
    body += ("/-- the Annex B.3 guard of one function: present / in the top-level statement list (or top-level try body) / its body\n"
             "ends in `return` / `size > itsGnMaxGeoAreaSize * factor` / effects that precede it in source order / (source\n"
             "operation) the refusal mentions GEOGRAPHICAL_SCOPE_TOO_LARGE / number of guards -/\n"
             "structure SizeGuard where\n  present : Bool\n  toplevel : Bool\n  refuses : Bool\n  cmpGt : Bool\n  factor : Nat\n"
             "  effectsBefore : Nat\n  refusalCode : Bool\n  count : Nat\nderiving DecidableEq, Repr\n")
    none = dict(present=False, toplevel=False, refuses=False, cmpGt=False, factor=0, effectsBefore=0, refusalCode=False, count=0)
    for name, lean in (("gn_data_request_gbc", "requestGbc"), ("gn_data_request_gac", "requestGac"),
                       ("gn_data_indicate_gbc", "indicateGbc"), ("gn_data_indicate_gac", "indicateGac")):
        g = info["guards"].get(name, none)
        body += (f"def {lean} : SizeGuard := ⟨{_b(g['present'])}, {_b(g['toplevel'])}, {_b(g['refuses'])}, {_b(g['cmpGt'])}, "
                 f"{g['factor']}, {g['effectsBefore']}, {_b(g['refusalCode'])}, {g['count']}⟩\n")
    body += f"/-- `gn_data_request_gac` is the single statement `return self.gn_data_request_gbc(request)` -/\n"
    body += f"def requestGacDelegates : Bool := {_b(info['gacDelegates'])}\n"
    body += ("/-- (function, object, number of loads of the position vector of that object inside the function) -/\n"
             "def pvLoads : List (String × String × Nat) := [" +
             ", ".join(f'("{f}", "{o}", {n})' for f, o, n in info["loads"]) + "]\n")
    body += ("/-- (function, for each call of `gn_geometric_function_f` in source order: where the position comes from - `ego` =\n"
             "self.ego_position_vector, `locT` = the position vector of a location table entry, `header` = the SO PV of the packet) -/\n"
             "def fArgOrigins : List (String × List String) := [" +
             ", ".join('("%s", [%s])' % (f, ", ".join('"%s"' % k for k in ks)) for f, ks in info["fArgs"]) + "]\n")
    def _sl(xs):
        return "[" + ", ".join('"%s"' % x.replace("\\", "\\\\").replace('"', "'") for x in xs) + "]"
    body += ("/-- (function, writes of state that outlives the call, reads of instance/class data attributes, decorators) for the\n"
             "geometric function and its helpers -/\n"
             "def fState : List (String × List String × List String × List String) := [" +
             ", ".join('("%s", %s, %s, %s)' % (f, _sl(w), _sl(r), _sl(d)) for f, w, r, d in info["fState"]) + "]\n")
    body += ("/-- (function of LongPositionVector, shift of the PAI flag, width and shift of the two's complement speed field); a\n"
             "negative number = not found / found twice -/\n"
             "def lpvLayout : List (String × Int × Int × Int) := [" +
             ", ".join('("%s", %d, %d, %d)' % t for t in info["lpv"]) + "]\n")
    body += "end Generated.AreaFacts\n"
    write_if_changed("AreaFacts.lean", body)


if __name__ == "__main__":
    import json
    print(json.dumps(analyse(), indent=1))

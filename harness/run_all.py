#!/venv/bin/python
"""Run every registered check (MANIFEST.json) once; print a summary.  usage: run_all.py [quick|thorough] [ids…]"""
import json, os, subprocess, sys, time
VERIF = os.path.dirname(os.path.dirname(os.path.abspath(__file__)))
tier = sys.argv[1] if len(sys.argv) > 1 and sys.argv[1] in ("quick", "thorough") else "quick"
only = [a.upper() for a in sys.argv[1:] if a not in ("quick", "thorough")]
man = json.load(open(os.path.join(VERIF, "MANIFEST.json")))
bad = 0
for c in man["checks"]:
    pid = c["property_id"]
    if only and pid not in only:
        continue
    cmd = c["quick_cmd"] if tier == "quick" else c.get("thorough_cmd", c["quick_cmd"])
    t0 = time.time()
    r = subprocess.run(cmd, shell=True, cwd=VERIF, capture_output=True, text=True)
    lines = [l for l in r.stdout.split("\n") if l.startswith(("VIOLATION", "KNOWN-FINDING", "INFRA", "TIMEOUT"))]
    last = r.stdout.strip().split("\n")[-1] if r.stdout.strip() else ""
    print(f"{pid} rc={r.returncode} {time.time()-t0:.0f}s | {last}")
    for l in lines:
        print("    " + l[:200])
    bad += r.returncode != 0
sys.exit(1 if bad else 0)

"""Generated/Except.lean (property C04): facts about exception handling on the receive path, re-read from the
current source on every run.

1. SHAPE of the `try` statement that guards the frame processor in the two link-layer receive loops and in
   `Router.gn_data_indicate` (`LoopShape`): class names of the handlers of the innermost `try` whose body calls the
   processor, whether that `try` is inside the body of the function's `while` loop (a `try` AROUND the loop would
   catch the exception and leave the loop), and what the catching handlers do: only allow-listed statements that cannot
   raise, break or return (logging calls, `pass`, `continue`) = `safe`; those plus `print(...)` = `printing`
   (raises when stdout is closed); anything else = `exits`.  Also whether the `except OSError: break` of
   `RawLinkLayer.receive` encloses anything but the socket read.
2. The exception TABLE: every class named by a `raise` statement in a module that the receive path can reach at module
   granularity (static import closure from the receive-path roots through `flexstack`, plus the whole third-party
   packages that closure imports: asn1tools, ecdsa, ...), every built-in exception class the interpreter raises
   implicitly (all `builtins` classes derived from `Exception`), and every class ever observed by the fuzzing runs
   (corpus/C04/observed_exceptions.json) - each with its MRO read from the running interpreter.  Props/C04 proves by
   `decide` over this table that every entry derives from `Exception`.
3. Sites that could raise something NOT derived from `Exception` (`raise SystemExit/KeyboardInterrupt/GeneratorExit`,
   calls of sys.exit / exit / quit / os._exit / os.abort / _thread.interrupt_main / signal.raise_signal) in those
   modules: Props/C04 requires the list to be empty for the flexstack modules.
"""
from __future__ import annotations

import ast
import builtins
import importlib
import importlib.util
import json
import os
import sys

import gen_lean
from gen_lean import src, write_if_changed
from common import REPO, VERIF

ROOTS = [
    "flexstack.linklayer.raw_link_layer", "flexstack.linklayer.cv2x_link_layer", "flexstack.geonet.router",
    "flexstack.btp.router", "flexstack.security.verify_service",
    "flexstack.facilities.ca_basic_service.cam_reception_management",
    "flexstack.facilities.decentralized_environmental_notification_service.denm_reception_management",
    "flexstack.facilities.vru_awareness_service.vam_reception_management",
    "flexstack.facilities.local_dynamic_map.factory",
]
LOG_METHODS = {"debug", "info", "warning", "warn", "error", "exception", "critical", "log"}
EXIT_CALLS = {("sys", "exit"), ("os", "_exit"), ("os", "abort"), ("os", "kill"), ("_thread", "interrupt_main"),
              ("signal", "raise_signal"), (None, "exit"), (None, "quit")}
BASE_ONLY = {"SystemExit", "KeyboardInterrupt", "GeneratorExit", "BaseException", "BaseExceptionGroup", "CancelledError"}
OBSERVED = os.path.join(VERIF, "corpus", "C04", "observed_exceptions.json")


# ------------------------------------------------------------------------------------------------ try-statement shape


def _names(t):
    if t is None:
        return ["BaseException"]           # bare `except:`
    if isinstance(t, ast.Tuple):
        return [n for e in t.elts for n in _names(e)]
    if isinstance(t, ast.Name):
        return [t.id]
    if isinstance(t, ast.Attribute):
        return [t.attr]
    return ["?"]


def _calls(node, attr):
    for n in ast.walk(node):
        if isinstance(n, ast.Call):
            f = n.func
            if (isinstance(f, ast.Attribute) and f.attr == attr) or (isinstance(f, ast.Name) and f.id == attr):
                return True
    return False


def _is_logging_call(call):
    """`<anything>.warning(...)` etc. where the receiver mentions a logger: logging.getLogger(..).warning,
    self.logging.warning, LOGGER.error, logging.warning"""
    f = call.func
    if not (isinstance(f, ast.Attribute) and f.attr in LOG_METHODS):
        return False
    txt = ast.unparse(f.value).lower()
    return "logg" in txt


def _arg_is_plain(e):
    """argument expressions of a report call that cannot raise by themselves: names, constants, attribute reads of
    names, `type(e).__name__`, string concatenation / %-free formatting of those.  `str(e)` counts as plain."""
    if isinstance(e, (ast.Name, ast.Constant)):
        return True
    if isinstance(e, ast.Attribute):
        return _arg_is_plain(e.value)
    if isinstance(e, ast.BinOp) and isinstance(e.op, ast.Add):
        return _arg_is_plain(e.left) and _arg_is_plain(e.right)
    if isinstance(e, ast.Call) and isinstance(e.func, ast.Name) and e.func.id in ("str", "type", "repr") and not e.keywords:
        return all(_arg_is_plain(a) for a in e.args)
    if isinstance(e, ast.JoinedStr):
        return all(isinstance(v, ast.Constant) or (isinstance(v, ast.FormattedValue) and _arg_is_plain(v.value))
                   for v in e.values)
    return False


def handler_kind(handlers):
    """'safe' | 'printing' | 'exits' for the union of the given except-handler bodies"""
    kind = "safe"
    for h in handlers:
        for stmt in h.body:
            if isinstance(stmt, (ast.Pass, ast.Continue)):
                continue
            if isinstance(stmt, ast.Expr) and isinstance(stmt.value, ast.Constant):      # doc string / ellipsis
                continue
            if isinstance(stmt, ast.Expr) and isinstance(stmt.value, ast.Call):
                c = stmt.value
                plain = all(_arg_is_plain(a) for a in c.args) and all(_arg_is_plain(k.value) for k in c.keywords)
                if _is_logging_call(c) and plain:
                    continue
                if isinstance(c.func, ast.Name) and c.func.id == "print" and plain:
                    kind = "printing" if kind == "safe" else kind
                    continue
            return "exits"
    return kind


def _find_func(path, cls, func):
    tree = ast.parse(src(path))
    for c in ast.walk(tree):
        if isinstance(c, ast.ClassDef) and c.name == cls:
            for fn in c.body:
                if isinstance(fn, ast.FunctionDef) and fn.name == func:
                    return fn
    raise KeyError(f"{cls}.{func} not found in {path}")


def _ancestors(root):
    par = {}
    for n in ast.walk(root):
        for ch in ast.iter_child_nodes(n):
            par[ch] = n
    return par


def loop_shape(path, cls, func, callee):
    """shape of the innermost `try` of cls.func whose BODY (not handlers / else / finally) calls `callee`.
    No such try: catches = [], handler = exits."""
    fn = _find_func(path, cls, func)
    par = _ancestors(fn)
    best = None
    for t in ast.walk(fn):
        if not (isinstance(t, ast.Try) and any(_calls(s, callee) for s in t.body)):
            continue
        nested = [n for s in t.body for n in ast.walk(s) if isinstance(n, ast.Try)]
        if any(any(_calls(s, callee) for s in n.body) for n in nested):
            continue                                    # an inner try already contains the call
        best = t
    if best is None:
        return {"catches": [], "inWhile": False, "handler": "exits", "outer": []}
    # is the try inside the BODY of a while loop of this function (not its `else`)?
    in_while, node = False, best
    while node in par:
        p = par[node]
        if isinstance(p, ast.While) and any(node is s or node in list(ast.walk(s)) for s in p.body):
            in_while = True
            break
        if isinstance(p, (ast.FunctionDef, ast.AsyncFunctionDef, ast.Lambda)) and p is not fn:
            break
        node = p
    # handlers in source order: the first whose class matches wins, so a handler that exits shadows later ones;
    # `catches` = names of the leading run of handlers up to (not including) the first non-continuing handler is too
    # subtle for a fact - instead ALL handlers of this try must be of the reported kind.
    catches = sorted({n for h in best.handlers for n in _names(h.type)})
    kind = handler_kind(best.handlers)
    if best.finalbody and any(isinstance(x, (ast.Raise, ast.Break, ast.Return)) for s in best.finalbody for x in ast.walk(s)):
        kind = "exits"
    # enclosing try statements between this try and the while loop (their handlers see what the inner handlers raise)
    outer, node = [], best
    while node in par:
        p = par[node]
        if isinstance(p, ast.Try) and any(node is s or node in list(ast.walk(s)) for s in p.body):
            outer.append({"catches": sorted({n for h in p.handlers for n in _names(h.type)}),
                          "handler": handler_kind(p.handlers)})
        if p is fn:
            break
        node = p
    return {"catches": catches, "inWhile": in_while, "handler": kind, "outer": outer}


def catches_around(path, cls, func, callee):
    """(kept for older callers) class names of the continuing handlers of the innermost try around the call"""
    sh = loop_shape(path, cls, func, callee)
    return sh["catches"] if sh["handler"] != "exits" else []


# ------------------------------------------------------------------------------------------------ raise table


def _module_file(name):
    """source file of module `name` WITHOUT importing it (flexstack from $FLEXSTACK_REPO, others from sys.path)"""
    if name == "flexstack" or name.startswith("flexstack."):
        base = os.path.join(REPO, "src", *name.split("."))
        for cand in (base + ".py", os.path.join(base, "__init__.py")):
            if os.path.exists(cand):
                return cand
        return None
    try:
        spec = importlib.util.find_spec(name)
    except (ImportError, ValueError, AttributeError):
        return None
    if spec is None or not spec.origin or not spec.origin.endswith(".py"):
        return None
    return spec.origin


def _imports(name, path):
    """modules statically imported by the module `name` at `path` (absolute names)"""
    out = set()
    try:
        tree = ast.parse(open(path, encoding="utf-8").read())
    except (SyntaxError, UnicodeDecodeError):
        return out
    is_pkg = os.path.basename(path) == "__init__.py"
    pkg = name if is_pkg else name.rpartition(".")[0]
    for n in ast.walk(tree):
        if isinstance(n, ast.Import):
            out.update(a.name for a in n.names)
        elif isinstance(n, ast.ImportFrom):
            if n.level:
                parts = pkg.split(".")
                base = ".".join(parts[:len(parts) - (n.level - 1)]) if n.level > 1 else pkg
                mod = (base + "." + n.module) if n.module else base
            else:
                mod = n.module or ""
            if mod:
                out.add(mod)
                out.update(mod + "." + a.name for a in n.names if a.name != "*")
    return out


def reachable_modules():
    """(flexstack modules in the static import closure of the receive-path roots, third-party top-level packages)"""
    stdlib = set(sys.stdlib_module_names)
    seen, third, todo = {}, set(), list(ROOTS)
    while todo:
        m = todo.pop()
        if m in seen:
            continue
        top = m.split(".")[0]
        if top in stdlib or top == "__future__":
            continue
        if top != "flexstack":
            third.add(top)
            continue
        f = _module_file(m)
        if f is None:
            continue                                        # `from pkg import name` where name is not a module
        seen[m] = f
        par = m.rpartition(".")[0]
        if par:
            todo.append(par)                                # importing a.b runs a/__init__
        todo.extend(_imports(m, f))
    # third-party packages: whole package, plus the third-party packages they import
    files3, todo3, seen3 = {}, sorted(third), set()
    while todo3:
        top = todo3.pop()
        if top in seen3 or top in stdlib:
            continue
        seen3.add(top)
        f = _module_file(top)
        if f is None:
            continue
        if os.path.basename(f) == "__init__.py":
            root = os.path.dirname(f)
            for dp, dn, fns in os.walk(root):
                dn[:] = [d for d in dn if d not in ("__pycache__", "tests", "test")]
                for fn in fns:
                    if fn.endswith(".py"):
                        rel = os.path.relpath(os.path.join(dp, fn), os.path.dirname(root))[:-3].replace(os.sep, ".")
                        if rel.endswith(".__init__"):
                            rel = rel[:-9]
                        if ".test_" in rel or rel.split(".")[-1].startswith("test_"):
                            continue
                        files3[rel] = os.path.join(dp, fn)
        else:
            files3[top] = f
        for m, p in list(files3.items()):
            if m.split(".")[0] == top:
                for i in _imports(m, p):
                    t = i.split(".")[0]
                    if t not in stdlib and t != "flexstack" and t not in seen3 and t != "__future__":
                        todo3.append(t)
    return seen, files3


def _qual(cls):
    return f"{cls.__module__}.{cls.__qualname__}"


def _resolve(modname, expr, cache):
    """class object named by `expr` in module `modname` (imports the module), or None"""
    if modname not in cache:
        try:
            cache[modname] = importlib.import_module(modname)
        except BaseException:  # noqa: BLE001 - optional native back-ends, missing extras
            cache[modname] = None
    mod = cache[modname]
    if mod is None:
        return None
    try:
        parts = ast.unparse(expr).split(".")
        obj = getattr(mod, parts[0]) if hasattr(mod, parts[0]) else getattr(builtins, parts[0])
        for p in parts[1:]:
            obj = getattr(obj, p)
    except Exception:  # noqa: BLE001
        return None
    return obj if isinstance(obj, type) else None


def scan_raises(modules):
    """-> (classes {qualname: class}, unresolved [site], base_only_sites [site]) for {module name: file}"""
    classes, unresolved, base_sites, cache = {}, [], [], {}
    for name in sorted(modules):
        path = modules[name]
        try:
            tree = ast.parse(open(path, encoding="utf-8").read())
        except (SyntaxError, UnicodeDecodeError):
            continue
        bound = set()      # names bound by `except X as e` (re-raising them raises an already raised exception)
        for n in ast.walk(tree):
            if isinstance(n, ast.ExceptHandler) and n.name:
                bound.add(n.name)
        for n in ast.walk(tree):
            site = f"{name}:{getattr(n, 'lineno', 0)}"
            if isinstance(n, ast.Raise) and n.exc is not None:
                e = n.exc.func if isinstance(n.exc, ast.Call) else n.exc
                if isinstance(e, ast.Name) and e.id in bound and not isinstance(n.exc, ast.Call):
                    continue
                last = e.attr if isinstance(e, ast.Attribute) else (e.id if isinstance(e, ast.Name) else None)
                if last in BASE_ONLY:
                    base_sites.append(f"{site} raise {last}")
                    continue
                cls = _resolve(name, e, cache) if isinstance(e, (ast.Name, ast.Attribute)) else None
                if cls is not None and issubclass(cls, BaseException):
                    classes[_qual(cls)] = cls
                else:
                    unresolved.append(f"{site} raise {ast.unparse(e)[:40]}")
            elif isinstance(n, ast.Call):
                f = n.func
                key = None
                if isinstance(f, ast.Attribute) and isinstance(f.value, ast.Name):
                    key = (f.value.id, f.attr)
                elif isinstance(f, ast.Name):
                    key = (None, f.id)
                if key in EXIT_CALLS:
                    base_sites.append(f"{site} call {ast.unparse(f)}")
    return classes, unresolved, base_sites


def builtin_exception_classes():
    out = {}
    for n in dir(builtins):
        o = getattr(builtins, n)
        if isinstance(o, type) and issubclass(o, Exception):
            out[_qual(o)] = o
    return out


def observed_classes():
    """classes recorded by the fuzzing runs: ["module:qualname", ...]"""
    out = {}
    if not os.path.exists(OBSERVED):
        return out
    for item in json.load(open(OBSERVED)).get("classes", []):
        mod, _, qn = item.partition(":")
        try:
            obj = importlib.import_module(mod)
            for p in qn.split("."):
                obj = getattr(obj, p)
        except Exception:  # noqa: BLE001 - class disappeared: nothing to add
            continue
        if isinstance(obj, type) and issubclass(obj, BaseException):
            out[_qual(obj)] = obj
    return out


def raise_table():
    """-> dict(table=[(qualname, [mro names])], unresolved=[...], flex_base_sites=[...], third_base_sites=[...],
    n_flex_modules, n_third_modules)"""
    flex, third = reachable_modules()
    c1, u1, b1 = scan_raises(flex)
    c3, u3, b3 = scan_raises(third)
    classes = {}
    classes.update(builtin_exception_classes())
    classes.update(c3)
    classes.update(c1)
    classes.update(observed_classes())
    table = [(q, [m.__name__ for m in classes[q].__mro__]) for q in sorted(classes)]
    return {"table": table, "unresolved": sorted(u1) + sorted(u3), "flex_base_sites": sorted(b1),
            "third_base_sites": sorted(b3), "n_flex_modules": len(flex), "n_third_modules": len(third),
            "flex_classes": sorted(c1), "third_classes": sorted(c3)}


_TABLE_CACHE = {}


def table_names():
    """set of qualified class names of the current table (for the harness: is an observed class covered?)"""
    if "t" not in _TABLE_CACHE:
        _TABLE_CACHE["t"] = raise_table()
    return {q for q, _ in _TABLE_CACHE["t"]["table"]}, _TABLE_CACHE["t"]


# ------------------------------------------------------------------------------------------------ Lean output


def lean_str_list(xs):
    return "[" + ", ".join('"' + x + '"' for x in xs) + "]"


def lean_shape(name, sh):
    return (f"def {name} : LoopShape := {{ catches := {lean_str_list(sh['catches'])}, "
            f"inWhile := {'true' if sh['inWhile'] else 'false'}, handler := .{sh['handler']} }}\n")


def recv_guard_only(path="linklayer/raw_link_layer.py"):
    """True iff every `try` of RawLinkLayer.receive that has a handler leaving the loop (break/return/raise) has a body
    consisting of the socket read alone (`<x> = self.sock.recv(..)`): nothing raised while a frame is processed can
    reach such a handler."""
    fn = _find_func(path, "RawLinkLayer", "receive")
    for t in ast.walk(fn):
        if not isinstance(t, ast.Try):
            continue
        leaving = [h for h in t.handlers if any(isinstance(x, (ast.Break, ast.Return, ast.Raise)) for x in ast.walk(h))]
        if not leaving:
            continue
        ok = (len(t.body) == 1 and isinstance(t.body[0], (ast.Assign, ast.Expr)) and _calls(t.body[0], "recv")
              and not _calls(t.body[0], "receive_callback"))
        if not ok:
            return False
    return True


def _is_none_test(test, var, positive=True):
    """`var is None` (positive) / `var is not None` (negative)"""
    return (isinstance(test, ast.Compare) and isinstance(test.left, ast.Name) and test.left.id in var
            and len(test.ops) == 1 and isinstance(test.ops[0], ast.Is if positive else ast.IsNot)
            and isinstance(test.comparators[0], ast.Constant) and test.comparators[0].value is None)


def _mentions(test, var):
    return any(isinstance(n, ast.Name) and n.id in var for n in ast.walk(test))


def queue_stop_test(path="linklayer/cv2x_link_layer.py", cls="PythonCV2XLinkLayer", func="callback_handler_loop"):
    """How does the queue loop decide to END?  Every `break` / `return` / `raise` in the body of the function's `while`
    (outside `except` handlers - those are judged by `handler_kind` - and outside nested loops / functions) is classified by
    the `if` that guards it, where `x` is a name bound to `<queue>.get(...)`:
      isNone  - `if x is None: <exit>` (or the else-branch of `if x is not None`): an IDENTITY test against the stop
                signal; no byte string, not even the empty one, is None;
      falsy   - the test looks at the truth value / length / equality of `x` (`if not x`, `if x`, `len(x) == 0`,
                `x == b""` ...): an empty GN packet ends the loop;
      other   - unguarded, or guarded by something that does not mention `x`.
    Result: 'never' (no exit), 'isNone' (all exits are identity tests), 'falsy' (some exit looks at the value), 'other'."""
    fn = _find_func(path, cls, func)
    par = _ancestors(fn)
    whiles = [n for n in ast.walk(fn) if isinstance(n, ast.While)]
    if not whiles:
        return "other"
    loop = whiles[0]
    var = set()
    for n in ast.walk(loop):
        if isinstance(n, ast.Assign) and isinstance(n.value, ast.Call) and isinstance(n.value.func, ast.Attribute) \
                and n.value.func.attr in ("get", "get_nowait"):
            var |= {t.id for t in n.targets if isinstance(t, ast.Name)}
        if isinstance(n, ast.NamedExpr) and isinstance(n.value, ast.Call) and isinstance(n.value.func, ast.Attribute) \
                and n.value.func.attr in ("get", "get_nowait"):
            var.add(n.target.id)
    kinds = []
    if not (isinstance(loop.test, ast.Constant) and loop.test.value is True):
        kinds.append("falsy" if _mentions(loop.test, var) else "other")        # `while data:` and the like
    for n in ast.walk(loop):
        if not isinstance(n, (ast.Break, ast.Return, ast.Raise)):
            continue
        # path from the exit up to the loop
        chain, x, skip = [], n, False
        while x is not loop:
            up = par[x]
            if isinstance(up, ast.ExceptHandler) or (isinstance(up, (ast.For, ast.While)) and up is not loop
                                                      and isinstance(n, ast.Break)) \
                    or isinstance(up, (ast.FunctionDef, ast.Lambda)):
                skip = True
                break
            if isinstance(up, ast.If):
                chain.append((up, x in up.body or any(x is b for b in up.body)))
            x = up
        if skip:
            continue
        if isinstance(n, ast.Raise) and any(isinstance(par.get(a), ast.Try) for a in _chain_nodes(n, par, loop)):
            continue          # a raise inside a try of the loop body is judged by the except clauses
        if not chain:
            kinds.append("other")
            continue
        test, in_body = chain[0]
        if (in_body and _is_none_test(test.test, var, True)) or (not in_body and _is_none_test(test.test, var, False)):
            kinds.append("isNone")
        elif _mentions(test.test, var):
            kinds.append("falsy")
        else:
            kinds.append("other")
    if not kinds:
        return "never"
    if all(k == "isNone" for k in kinds):
        return "isNone"
    return "falsy" if "falsy" in kinds else "other"


def _chain_nodes(n, par, stop):
    out = []
    while n is not stop:
        out.append(n)
        n = par[n]
    return out


def raw_frame_exits(path="linklayer/raw_link_layer.py"):
    """number of `break` / `return` statements in the `while` of RawLinkLayer.receive that are NOT in the handler of the
    `try` around the socket read: ways in which a RECEIVED frame (rather than a socket error) can end the loop"""
    fn = _find_func(path, "RawLinkLayer", "receive")
    par = _ancestors(fn)
    whiles = [n for n in ast.walk(fn) if isinstance(n, ast.While)]
    if not whiles:
        return 99
    loop, n_exits = whiles[0], 0
    if not (isinstance(loop.test, ast.Constant) and loop.test.value is True):
        n_exits += 1
    for n in ast.walk(loop):
        if not isinstance(n, (ast.Break, ast.Return)):
            continue
        x, in_recv_guard = n, False
        while x is not loop:
            up = par[x]
            if isinstance(up, ast.ExceptHandler):
                t = par[up]
                in_recv_guard = (isinstance(t, ast.Try) and len(t.body) == 1 and _calls(t.body[0], "recv")
                                 and not _calls(t.body[0], "receive_callback"))
                break
            x = up
        if not in_recv_guard:
            n_exits += 1
    return n_exits


@gen_lean.register(props=["C04"])
def gen_c04_shared():
    """facts written by other properties' generators on which Props.C04 states obligations of its own: the receive-context
    discipline of Router (Generated/RouterRx.lean, gen_router.py, C06) and the lock graph (Generated/Locks.lean,
    gen_locks.py, C15): regenerated from the tree under test when C04 is checked"""
    import gen_router
    import gen_locks
    gen_router.gen_router_rx()
    gen_locks.gen_locks()


@gen_lean.register(props=["C04"])
def gen_except():
    from flexstack.geonet.exceptions import DecodeError, DecapError
    raw = loop_shape("linklayer/raw_link_layer.py", "RawLinkLayer", "receive", "receive_callback")
    cv2x = loop_shape("linklayer/cv2x_link_layer.py", "PythonCV2XLinkLayer", "callback_handler_loop", "receive_callback")
    gn = loop_shape("geonet/router.py", "Router", "gn_data_indicate", "process_basic_header")
    kinds = {"decodeError": DecodeError, "decapError": DecapError, "valueError": ValueError,
             "notImplementedError": NotImplementedError, "zeroDivisionError": ZeroDivisionError,
             "stdoutError": BrokenPipeError}
    _TABLE_CACHE.pop("t", None)
    _, t = table_names()
    body = "import FlexModel.Geo.RecvPath\nnamespace Generated.Except\nopen FlexModel.Geo.Recv\n"
    body += lean_shape("rawLoop", raw) + lean_shape("cv2xLoop", cv2x) + lean_shape("gnIndicate", gn)
    body += f"/-- every try of RawLinkLayer.receive with a handler that leaves the loop encloses the socket read only -/\n"
    body += f"def rawRecvGuardOnly : Bool := {'true' if recv_guard_only() else 'false'}\n"
    body += ("/-- how PythonCV2XLinkLayer.callback_handler_loop decides to end: every exit of its `while` is guarded by an "
             "identity test of the dequeued item against None (`isNone`), or looks at its value (`falsy`) ... -/\n")
    body += f"def cv2xStopTest : StopTest := .{queue_stop_test()}\n"
    body += ("/-- break / return statements of the `while` of RawLinkLayer.receive outside the handler of the `try` around "
             "the socket read -/\n")
    body += f"def rawFrameExits : Nat := {raw_frame_exits()}\n"
    body += (f"/-- {len(t['table'])} classes: raise statements of {t['n_flex_modules']} flexstack modules (import closure of the "
             f"receive path) and {t['n_third_modules']} third-party modules, builtins derived from Exception, observed -/\n")
    body += "def raiseTable : List (String × List String) := [\n"
    body += ",\n".join(f'  ("{q}", {lean_str_list(m)})' for q, m in t["table"]) + "]\n"
    body += f"def flexRaiseClasses : List String := {lean_str_list(t['flex_classes'])}\n"
    body += "/-- sites in the flexstack modules that raise / call something not derived from Exception -/\n"
    body += f"def flexBaseOnlySites : List String := {lean_str_list(t['flex_base_sites'])}\n"
    body += f"def thirdPartyBaseOnlySites : List String := {lean_str_list(t['third_base_sites'])}\n"
    body += f"/-- raise statements whose class is computed at run time (informational; covered only by observation) -/\n"
    body += f"def unresolvedRaiseSites : Nat := {len(t['unresolved'])}\n"
    body += "def defaultClass : String × List String := (\"builtins.Exception\", [\"Exception\", \"BaseException\", \"object\"])\n"
    body += "def mro : Exc → List String\n"
    for k, c in kinds.items():
        body += f"  | .{k} => {lean_str_list([m.__name__ for m in c.__mro__])}\n"
    body += "  | .listed i => (raiseTable.getD i defaultClass).2\n"
    body += "end Generated.Except\n"
    write_if_changed("Except.lean", body)
    return None

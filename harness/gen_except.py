"""Generated/Except.lean: the exception classes named by the `except` clauses that guard the receive path
(read with `ast` from the current source) and the MRO of every exception kind of the model (read from the
running interpreter with the repo's exception classes)."""
from __future__ import annotations

import ast

import gen_lean
from gen_lean import src, write_if_changed


def _names(t):
    if t is None:
        return ["BaseException"]           # bare `except:`
    if isinstance(t, ast.Tuple):
        return [n for e in t.elts for n in _names(e)]
    if isinstance(t, ast.Name):
        return [t.id]
    if isinstance(t, ast.Attribute):
        return [t.attr]
    return ["?"]


def _calls(node, attr):
    for n in ast.walk(node):
        if isinstance(n, ast.Call):
            f = n.func
            if (isinstance(f, ast.Attribute) and f.attr == attr) or (isinstance(f, ast.Name) and f.id == attr):
                return True
    return False


def catches_around(path, cls, func, callee):
    """union over all `try` statements in cls.func whose BODY calls `callee`: class names of their handlers.
    Returns [] when the call is not inside any try."""
    tree = ast.parse(src(path))
    for c in ast.walk(tree):
        if isinstance(c, ast.ClassDef) and c.name == cls:
            for fn in c.body:
                if isinstance(fn, ast.FunctionDef) and fn.name == func:
                    out = []
                    for t in ast.walk(fn):
                        if not (isinstance(t, ast.Try) and any(_calls(s, callee) for s in t.body)):
                            continue
                        # innermost try only: skip when a nested try inside the body already contains the call
                        nested = [n for s in t.body for n in ast.walk(s) if isinstance(n, ast.Try)]
                        if any(any(_calls(s, callee) for s in n.body) for n in nested):
                            continue
                        for h in t.handlers:
                            # a handler that re-raises, breaks or returns ends the loop: it does not "catch and continue"
                            if any(isinstance(x, (ast.Raise, ast.Break, ast.Return)) for x in ast.walk(h)):
                                continue
                            out += _names(h.type)
                    return sorted(set(out))
    raise KeyError(f"{cls}.{func} not found in {path}")


def lean_str_list(xs):
    return "[" + ", ".join('"' + x + '"' for x in xs) + "]"


@gen_lean.register(props=["C04"])
def gen_except():
    from flexstack.geonet.exceptions import DecodeError, DecapError
    raw = catches_around("linklayer/raw_link_layer.py", "RawLinkLayer", "receive", "receive_callback")
    cv2x = catches_around("linklayer/cv2x_link_layer.py", "PythonCV2XLinkLayer", "callback_handler_loop", "receive_callback")
    gn = catches_around("geonet/router.py", "Router", "gn_data_indicate", "process_basic_header")
    kinds = {"decodeError": DecodeError, "decapError": DecapError, "valueError": ValueError,
             "notImplementedError": NotImplementedError, "zeroDivisionError": ZeroDivisionError, "opaque": Exception}
    body = "import FlexModel.Geo.RecvPath\nnamespace Generated.Except\nopen FlexModel.Geo.Recv\n"
    body += f"def rawLoopCatches : List String := {lean_str_list(raw)}\n"
    body += f"def cv2xLoopCatches : List String := {lean_str_list(cv2x)}\n"
    body += f"def gnIndicateCatches : List String := {lean_str_list(gn)}\n"
    body += "def mro : Exc → List String\n"
    for k, c in kinds.items():
        body += f"  | .{k} => {lean_str_list([m.__name__ for m in c.__mro__])}\n"
    body += "end Generated.Except\n"
    write_if_changed("Except.lean", body)

#!/venv/bin/python
"""Entry point of every registered check:  vcheck.py Cxx [--tier quick|thorough] [--replay FILE]

exit 0  property held on everything explored (KNOWN-FINDING lines possible)
exit 1  + line `VIOLATION property=<id> replay=<path>[ no-failing-input-found]`
exit 2  infrastructure failure / timeout (never a VIOLATION line)
"""
from __future__ import annotations

import argparse
import importlib
import json
import os
import signal
import sys
import time
import traceback

sys.path.insert(0, os.path.dirname(os.path.abspath(__file__)))
import common  # noqa: E402
from common import Ctx, Infra  # noqa: E402
import gen_lean  # noqa: E402


def main():
    ap = argparse.ArgumentParser()
    ap.add_argument("prop")
    ap.add_argument("--tier", default=os.environ.get("VERIF_TIER", "quick"), choices=["quick", "thorough"])
    ap.add_argument("--replay")
    ap.add_argument("--no-build", action="store_true", help="skip lake build/audit (development only)")
    args = ap.parse_args()
    prop = args.prop.upper()
    try:        # one integer; a list like "1,2,3" (several runs meant) uses its first element
        seed = int((os.environ.get("VERIF_SEED", "1") or "1").replace(" ", "").split(",")[0])
    except ValueError:
        seed = 1
    budget = int(os.environ.get("VERIF_TIMEOUT_S", "3300" if args.tier == "thorough" else "1500"))

    def on_alarm(*_):
        print(f"TIMEOUT property={prop} after {budget}s", flush=True)
        os._exit(2)

    signal.signal(signal.SIGALRM, on_alarm)
    signal.alarm(budget + 7200)      # waiting for other runs (development: many agents share the lean project) is not check time
    common.acquire_run_lock()
    signal.alarm(budget)
    mod = importlib.import_module(f"props.{prop.lower()}")
    ctx = Ctx(prop, args.tier, seed)
    ctx.assumptions = list(getattr(mod, "ASSUMPTIONS", []))

    if args.replay:
        obj = json.load(open(args.replay))
        try:
            bad = mod.replay(ctx, obj)
        except Infra as e:
            print(f"INFRA: {e}")
            return 2
        if bad:
            print(f"VIOLATION property={prop} replay={args.replay}")
            return 1
        print(f"replay {args.replay}: property holds on this input")
        return 0

    lean_modules = list(getattr(mod, "MODULES", [f"Props.{prop}"]))
    broken = []   # names of obligations / correspondences that no longer check
    theorems, obligations, discharged = [], 0, 0
    build_tail = None
    try:
        with common.BuildLock():
            gen_lean.generate_all(ctx)
            for gf in ctx.extra.get("generator_failures", []):
                broken.append("generator failed (facts could not be re-read from /repo): " + gf)
            if not args.no_build:
                drivers = ["Driver." + d for d in getattr(mod, "DRIVERS", [])]
                ok, log = common.lake_build(["FlexModel.Audit"] + drivers)
                if not ok:
                    ctx.model_ok = False
                    broken.append("lake build " + " ".join(drivers) + " (model no longer builds against Generated/*)")
                    build_tail = log[-3000:]
                ok, log = common.lake_build(lean_modules)
                if not ok:
                    broken.append("lake build " + " ".join(lean_modules) + " (a theorem / generated side condition no longer checks)")
                    build_tail = log[-3000:]
                    for line in log.split("\n"):
                        if "error" in line and ".lean:" in line:
                            broken.append(line.strip()[:300])
                hits = common.forbidden_scan(lean_modules + drivers)
                if hits:
                    broken.append("forbidden tokens in lean sources: " + "; ".join(hits[:5]))
                if ok:
                    for m in lean_modules:
                        for name, axs in common.audit_module(m):
                            good = set(axs) <= common.ALLOWED_AXIOMS
                            theorems.append({"theorem": name, "axioms": axs, "ok": good})
                            obligations += 1
                            discharged += 1 if good else 0
                            if not good:
                                broken.append(f"theorem {name} depends on non-allowed axioms {axs}")
                else:
                    obligations = max(1, len(getattr(mod, "EXPECTED_THEOREMS", [])) or 1)
                    discharged = 0
        if args.tier == "thorough" and not args.no_build and not any(b.startswith("lake build") for b in broken):
            # independent kernel re-check of the compiled theorems (outside the build lock: read-only)
            lc_ok, lc_out = common.leanchecker(lean_modules)
            ctx.extra["leanchecker"] = {"modules": lean_modules, "ok": lc_ok}
            if not lc_ok:
                broken.append("leanchecker rejects the compiled modules: " + lc_out[-400:])
        # known-finding bookkeeping, corpus, correspondence, oracle
        mod.run(ctx)
        if (broken or ctx.mismatches) and not ctx.violations and hasattr(mod, "search"):
            ctx.note("obligation/correspondence broken -> failing-input search")
            mod.search(ctx)
    except Infra as e:
        print(f"INFRA: {e}")
        traceback.print_exc()
        return 2
    except Exception:
        traceback.print_exc()
        print("INFRA: harness exception")
        return 2

    rc = 0
    lines = []
    for i, v in enumerate(ctx.violations[:3]):
        path = common.write_replay(prop, f"violation_{i}", {
            "property": prop, "what": v["what"], "case": v["replay"], "seed": seed, "tier": args.tier,
            "replay_cmd": f"/venv/bin/python harness/vcheck.py {prop} --replay <this file>"})
        lines.append(f"VIOLATION property={prop} replay={path}")
        rc = 1
    if not ctx.violations and (broken or ctx.mismatches):
        path = common.write_replay(prop, "broken_obligation", {
            "property": prop, "broken": broken, "mismatches": ctx.mismatches[:10], "seed": seed, "tier": args.tier,
            "note": "no concrete failing input found for the real code; the named theorem / correspondence no longer checks"})
        lines.append(f"VIOLATION property={prop} replay={path} no-failing-input-found")
        rc = 1
    for kid, info in ctx.known_seen.items():
        desc = next((k["what"] for k in ctx.known if k["id"] == kid), info["what"])
        print(f"KNOWN-FINDING: property={prop} {kid} {desc} [e.g. {info['what']}; reproduced {info['count']}x this run]")
    if ctx.mismatches:
        ctx.note(f"first mismatch: {common.canon(ctx.mismatches[0])[:500]}")
    nviol = len(ctx.violations) + (1 if (rc and not ctx.violations) else 0)
    common.write_evidence(
        ctx, max(obligations, 1), discharged, theorems,
        checker_cmd="cd lean && lake build " + " ".join(lean_modules) + "  &&  lake env lean <(#audit_module …)  [thorough: lake env leanchecker]",
        trusted_extra=getattr(mod, "TRUSTED", []), violations_n=nviol, build_log_tail=build_tail)
    for ln in lines:
        print(ln)
    print(f"{prop} tier={args.tier} seed={seed} theorems={discharged}/{obligations} evaluations={ctx.evaluations} "
          f"mismatches={ctx.counts.get('mismatches_total', 0)} violations={len(ctx.violations)} wall={time.time() - ctx.t0:.1f}s")
    return rc


if __name__ == "__main__":
    sys.exit(main())

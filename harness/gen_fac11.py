"""Structural facts regenerated from the facilities sources for C11 only (round 3) -> lean/Generated/FacC11.lean.

Everything is read by an `ast` pass / from the ASN.1 text; nothing of the target is executed.

* `VEHICLE_ROLE_NAMES`        the literal table `_VEHICLE_ROLE_NAMES` (index = VehicleData.vehicle_role) of the CAM
                              transmission management, and `Cam.VehicleRole_names` / `Cam.VehicleRole_values`: the
                              `VehicleRole ::= ENUMERATED` of the ASN.1 text the CAM coder compiles.
* `ALT_CONF_OP`               operator of `if epv <op> key` in `create_altitude_confidence`.
* `ELLIPSE_ORIENT_NS/EW`      semiMajorAxisOrientation written by `create_position_confidence` when epy >= epx / otherwise.
* `REC_CMP_OP`                operator of `if transformed_timestamp <op> utc_timestamp_in_millis` in
                              `GenerationDeltaTime.as_timestamp_in_certain_point` (0 `<`, 1 `<=`, 2 `>`, 3 `>=`), and
                              `REC_CYCLE` the literal cycle length used there.
* `CAM_TPV_CACHE_REPLACE`     1 iff `CAMTransmissionManagement.location_service_callback` stores the report itself
                              (`self._current_tpv = tpv`); 0 for any other expression (e.g. a merge with the old one).
* `CAM_TPV_UNLOCKED`          number of accesses to `self._current_tpv` outside `with self._tpv_lock` in the callback and
                              in `_evaluate_and_maybe_send`.
* `VAM_REPORT_DIRECT`         1 iff `VAMTransmissionManagement.location_service_callback` fills the VAM from its own
                              argument (`fullfill_with_tpv_data(tpv)`).
* `DENM_POS_FRESH`            1 iff `EmergencyVehicleApproachingService.trigger_denm_sending` starts from an event
                              position that does not depend on `self.event_position` (0: the previous one is carried over).
* `RX_CLOCK_EXACT_CAM/VAM`    1 iff the reception management reads the clock as `round(t * 1000000) // 1000`, 0 for the
                              truncating `int(t * 1000)`; any other shape is a generator failure.
* `CLUSTER_*_UNLOCKED`        number of accesses to `self._cluster` / `self._state` / `self._*substate` ... (any private
                              attribute of self) in `get_cluster_information_container`, `get_cluster_operation_container`
                              and `should_transmit_vam` of `VBSClusteringManager` that are NOT inside `with self._lock`,
                              and `CLUSTER_LOCK_REENTRANT`.
"""
from __future__ import annotations

import ast

import gen_lean
from gen_lean import write_if_changed, src

CAM_TM = "facilities/ca_basic_service/cam_transmission_management.py"
CAM_RX = "facilities/ca_basic_service/cam_reception_management.py"
VAM_TM = "facilities/vru_awareness_service/vam_transmission_management.py"
VAM_RX = "facilities/vru_awareness_service/vam_reception_management.py"
VRU_CL = "facilities/vru_awareness_service/vru_clustering.py"
EVA = "applications/road_hazard_signalling_service/emergency_vehicle_approaching_service.py"

OPS = {"Lt": 0, "LtE": 1, "Gt": 2, "GtE": 3}


def _func(tree, cls, name):
    for node in ast.walk(tree):
        if isinstance(node, ast.ClassDef) and node.name == cls:
            for f in node.body:
                if isinstance(f, ast.FunctionDef) and f.name == name:
                    return f
    raise ValueError(f"{cls}.{name} not found")


def _is_self_attr(node, attr=None):
    return (isinstance(node, ast.Attribute) and isinstance(node.value, ast.Name) and node.value.id == "self"
            and (attr is None or node.attr == attr))


def _with_locks(node, lock):
    return isinstance(node, ast.With) and any(_is_self_attr(i.context_expr, lock) for i in node.items)


def unlocked_accesses(fn, lock, attrs=None):
    """accesses `self.<a>` (a in attrs, or any private attribute other than the lock when attrs is None) in `fn` that
    are not lexically inside `with self.<lock>`"""
    out = []

    def visit(node, under):
        if _with_locks(node, lock):
            for ch in node.body:
                visit(ch, True)
            return
        if _is_self_attr(node) and node.attr != lock:
            hit = node.attr in attrs if attrs is not None else (node.attr.startswith("_") and not node.attr.startswith("__"))
            if hit and not under:
                out.append((node.attr, node.lineno))
        for ch in ast.iter_child_nodes(node):
            visit(ch, under)

    for st in fn.body:
        visit(st, False)
    return out


def role_table():
    tree = ast.parse(src(CAM_TM))
    for node in tree.body:
        if isinstance(node, ast.Assign) and any(isinstance(t, ast.Name) and t.id == "_VEHICLE_ROLE_NAMES" for t in node.targets):
            if isinstance(node.value, ast.List) and all(isinstance(e, ast.Constant) and isinstance(e.value, str) for e in node.value.elts):
                return [e.value for e in node.value.elts]
            raise ValueError("_VEHICLE_ROLE_NAMES is not a literal list of strings")
    raise ValueError("_VEHICLE_ROLE_NAMES not found")


FLIP = {"Lt": "Gt", "LtE": "GtE", "Gt": "Lt", "GtE": "LtE"}


def reconstruct_cmp():
    """operator of the one `if <local> <op> <parameter>` of as_timestamp_in_certain_point (names are not significant;
    `<parameter> <op> <local>` is read with the operator flipped)"""
    fn = _func(ast.parse(src(CAM_TM)), "GenerationDeltaTime", "as_timestamp_in_certain_point")
    param = fn.args.args[1].arg
    hits = []
    for node in ast.walk(fn):
        if isinstance(node, ast.If) and isinstance(node.test, ast.Compare) and len(node.test.ops) == 1:
            c = node.test
            op = type(c.ops[0]).__name__
            if isinstance(c.left, ast.Name) and isinstance(c.comparators[0], ast.Name) and op in OPS:
                if c.comparators[0].id == param and c.left.id != param:
                    hits.append(op)
                elif c.left.id == param and c.comparators[0].id != param:
                    hits.append(FLIP[op])
    if len(hits) != 1:
        raise ValueError(f"as_timestamp_in_certain_point: expected one comparison of the candidate with the reception time, found {hits}")
    cycles = sorted({n.value for n in ast.walk(fn) if isinstance(n, ast.Constant) and isinstance(n.value, int)
                     and not isinstance(n.value, bool) and n.value > 1})
    if cycles != [65536]:
        raise ValueError(f"as_timestamp_in_certain_point: unexpected integer literals {cycles}")
    return OPS[hits[0]], cycles[0]


def alt_conf_op():
    """operator of `if epv <op> key` in CooperativeAwarenessMessage.create_altitude_confidence (inherited by VAMMessage)"""
    fn = _func(ast.parse(src(CAM_TM)), "CooperativeAwarenessMessage", "create_altitude_confidence")
    param = fn.args.args[1].arg
    hits = [(type(n.ops[0]).__name__) for n in ast.walk(fn) if isinstance(n, ast.Compare) and len(n.ops) == 1
            and isinstance(n.left, ast.Name) and n.left.id == param and isinstance(n.comparators[0], ast.Name)]
    if len(hits) != 1 or hits[0] not in OPS:
        raise ValueError(f"create_altitude_confidence: unexpected comparisons {hits}")
    vam = ast.parse(src(VAM_TM))
    own = any(isinstance(c, ast.ClassDef) and c.name == "VAMMessage" and any(isinstance(f, ast.FunctionDef) and f.name == "create_altitude_confidence" for f in c.body)
              for c in vam.body)
    if own:
        raise ValueError("VAMMessage defines its own create_altitude_confidence (model assumes the inherited one)")
    return OPS[hits[0]]


def ellipse_orientation():
    """(orientation when epy >= epx, orientation otherwise) written by create_position_confidence"""
    fn = _func(ast.parse(src(CAM_TM)), "CooperativeAwarenessMessage", "create_position_confidence")
    vals = [v for n in ast.walk(fn) if isinstance(n, ast.Dict) for k, v in zip(n.keys, n.values)
            if isinstance(k, ast.Constant) and k.value == "semiMajorAxisOrientation"]
    if len(vals) != 1:
        raise ValueError("create_position_confidence: semiMajorAxisOrientation not found once")
    v = vals[0]
    if isinstance(v, ast.Constant) and isinstance(v.value, int):
        return v.value, v.value
    px, py = fn.args.args[1].arg, fn.args.args[2].arg          # (self, epx, epy)
    if (isinstance(v, ast.IfExp) and isinstance(v.body, ast.Constant) and isinstance(v.orelse, ast.Constant)
            and isinstance(v.test, ast.Compare) and len(v.test.ops) == 1
            and isinstance(v.test.left, ast.Name) and isinstance(v.test.comparators[0], ast.Name)):
        l, op, r = v.test.left.id, type(v.test.ops[0]).__name__, v.test.comparators[0].id
        if (l, op, r) in ((py, "GtE", px), (px, "LtE", py)):
            return v.body.value, v.orelse.value
        if (l, op, r) in ((px, "Gt", py), (py, "Lt", px)):
            return v.orelse.value, v.body.value
    raise ValueError(f"create_position_confidence: unknown orientation expression {ast.unparse(v)}")


def cam_cache_facts():
    tree = ast.parse(src(CAM_TM))
    cb = _func(tree, "CAMTransmissionManagement", "location_service_callback")
    arg = cb.args.args[1].arg
    stores = [n for n in ast.walk(cb) if isinstance(n, ast.Assign) and any(_is_self_attr(t, "_current_tpv") for t in n.targets)]
    if len(stores) != 1:
        raise ValueError(f"location_service_callback: {len(stores)} stores to self._current_tpv")
    replace = 1 if (isinstance(stores[0].value, ast.Name) and stores[0].value.id == arg) else 0
    ev = _func(tree, "CAMTransmissionManagement", "_evaluate_and_maybe_send")
    unlocked = len(unlocked_accesses(cb, "_tpv_lock", {"_current_tpv"})) + len(unlocked_accesses(ev, "_tpv_lock", {"_current_tpv"}))
    return replace, unlocked


def vam_report_direct():
    cb = _func(ast.parse(src(VAM_TM)), "VAMTransmissionManagement", "location_service_callback")
    arg = cb.args.args[1].arg
    calls = [n for n in ast.walk(cb) if isinstance(n, ast.Call) and isinstance(n.func, ast.Attribute)
             and n.func.attr == "fullfill_with_tpv_data"]
    if len(calls) != 1:
        raise ValueError(f"VAM location_service_callback: {len(calls)} fullfill_with_tpv_data calls")
    a = calls[0].args
    return 1 if (len(a) == 1 and isinstance(a[0], ast.Name) and a[0].id == arg) else 0


def denm_pos_fresh():
    fn = _func(ast.parse(src(EVA)), "EmergencyVehicleApproachingService", "trigger_denm_sending")
    stores = sorted((n for n in ast.walk(fn) if isinstance(n, ast.Assign) and any(_is_self_attr(t, "event_position") for t in n.targets)),
                    key=lambda n: n.lineno)
    if not stores:
        # the position object is updated in place: carried over
        return 0
    first = stores[0]
    # every use of self.event_position before the first store would also be a carry-over; the builders only subscript
    # it after the store
    early = [n for n in ast.walk(fn) if _is_self_attr(n, "event_position") and n.lineno < first.lineno]
    depends = any(_is_self_attr(n, "event_position") for n in ast.walk(first.value))
    return 0 if (depends or early) else 1


def rx_clock_exact(path, cls):
    """how `reception_callback` reads the clock in milliseconds (the expression may be bound to a local first)"""
    fn = _func(ast.parse(src(path)), cls, "reception_callback")
    calls = [n for n in ast.walk(fn) if isinstance(n, ast.Call) and isinstance(n.func, ast.Attribute)
             and n.func.attr == "as_timestamp_in_certain_point"]
    if len(calls) != 1 or len(calls[0].args) != 1:
        raise ValueError(f"{cls}.reception_callback: unexpected use of as_timestamp_in_certain_point")

    def is_clock_times(node, k):
        return (isinstance(node, ast.BinOp) and isinstance(node.op, ast.Mult) and isinstance(node.right, ast.Constant)
                and node.right.value == k and isinstance(node.left, ast.Call) and isinstance(node.left.func, ast.Attribute)
                and node.left.func.attr == "time" and isinstance(node.left.func.value, ast.Name)
                and node.left.func.value.id == "TimeService")

    trunc = exact = 0
    for a in ast.walk(fn):
        if isinstance(a, ast.Call) and isinstance(a.func, ast.Name) and a.func.id == "int" and len(a.args) == 1 and is_clock_times(a.args[0], 1000):
            trunc += 1
        if (isinstance(a, ast.BinOp) and isinstance(a.op, ast.FloorDiv) and isinstance(a.right, ast.Constant) and a.right.value == 1000
                and isinstance(a.left, ast.Call) and isinstance(a.left.func, ast.Name) and a.left.func.id == "round"
                and len(a.left.args) == 1 and is_clock_times(a.left.args[0], 1000000)):
            exact += 1
    if trunc:
        return 0
    if exact:
        return 1
    raise ValueError(f"{cls}.reception_callback: unknown clock expression {ast.unparse(calls[0].args[0])}")


def cluster_lock_facts():
    tree = ast.parse(src(VRU_CL))
    out = {}
    for m in ("get_cluster_information_container", "get_cluster_operation_container", "should_transmit_vam"):
        out[m] = unlocked_accesses(_func(tree, "VBSClusteringManager", m), "_lock")
    init = _func(tree, "VBSClusteringManager", "__init__")
    ctor = [n.value for n in ast.walk(init) if isinstance(n, ast.Assign) and any(_is_self_attr(t, "_lock") for t in n.targets)]
    name = ""
    if len(ctor) == 1 and isinstance(ctor[0], ast.Call):
        f = ctor[0].func
        name = f.attr if isinstance(f, ast.Attribute) else getattr(f, "id", "")
    if name not in ("Lock", "RLock"):
        raise ValueError("VBSClusteringManager._lock is not created by Lock()/RLock()")
    return out, name == "RLock"


def vehicle_role_enum():
    import gen_fac
    return gen_fac.parse_enum(gen_fac.asn1_texts()["Cam"], "VehicleRole")


@gen_lean.register(props=["C11"])
def gen_fac_c11():
    body = "namespace Generated.Fac11\n"
    names = role_table()
    body += "/-- `_VEHICLE_ROLE_NAMES` of cam_transmission_management.py (index = VehicleData.vehicle_role) -/\n"
    body += "def VEHICLE_ROLE_NAMES : List String := [" + ", ".join(f'"{n}"' for n in names) + "]\n"
    en = vehicle_role_enum()
    body += "/-- `VehicleRole ::= ENUMERATED` of the ASN.1 text the CAM coder compiles -/\n"
    body += "def VehicleRole_names : List String := [" + ", ".join(f'"{k}"' for k, _ in en) + "]\n"
    body += "def VehicleRole_values : List Nat := [" + ", ".join(str(v) for _, v in en) + "]\n"
    body += "/-- operator of `epv <op> key` in create_altitude_confidence (0 `<`, 1 `<=`) -/\n"
    body += f"def ALT_CONF_OP : Nat := {alt_conf_op()}\n"
    ons, oew = ellipse_orientation()
    body += "/-- semiMajorAxisOrientation written when epy >= epx (north-south major axis) / otherwise (east-west) -/\n"
    body += f"def ELLIPSE_ORIENT_NS : Int := {ons}\ndef ELLIPSE_ORIENT_EW : Int := {oew}\n"
    op, cyc = reconstruct_cmp()
    body += "/-- comparison operator codes: 0 `<`, 1 `<=`, 2 `>`, 3 `>=` -/\n"
    body += f"def REC_CMP_OP : Nat := {op}\ndef REC_CYCLE : Nat := {cyc}\n"
    rep, unl = cam_cache_facts()
    body += f"def CAM_TPV_CACHE_REPLACE : Nat := {rep}\ndef CAM_TPV_UNLOCKED : Nat := {unl}\n"
    body += f"def VAM_REPORT_DIRECT : Nat := {vam_report_direct()}\n"
    body += f"def DENM_POS_FRESH : Nat := {denm_pos_fresh()}\n"
    body += f"def RX_CLOCK_EXACT_CAM : Nat := {rx_clock_exact(CAM_RX, 'CAMReceptionManagement')}\n"
    body += f"def RX_CLOCK_EXACT_VAM : Nat := {rx_clock_exact(VAM_RX, 'VAMReceptionManagement')}\n"
    facts, reentrant = cluster_lock_facts()
    body += "/-- accesses to private attributes of the clustering manager outside `with self._lock` (attribute, line) -/\n"
    for m, tag in (("get_cluster_information_container", "CLUSTER_INFO"), ("get_cluster_operation_container", "CLUSTER_OP"),
                   ("should_transmit_vam", "CLUSTER_SHOULD_TX")):
        body += f"def {tag}_UNLOCKED : List (String × Nat) := [" + ", ".join(f'("{a}", {ln})' for a, ln in facts[m]) + "]\n"
    body += f"def CLUSTER_LOCK_REENTRANT : Bool := {'true' if reentrant else 'false'}\n"
    body += "end Generated.Fac11\n"
    write_if_changed("FacC11.lean", body)

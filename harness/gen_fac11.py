"""Structural facts regenerated from the facilities sources for C11 only (round 3) -> lean/Generated/FacC11.lean.

Everything is read by an `ast` pass / from the ASN.1 text; nothing of the target is executed.

* `VEHICLE_ROLE_NAMES`        the literal table `_VEHICLE_ROLE_NAMES` (index = VehicleData.vehicle_role) of the CAM
                              transmission management, and `Cam.VehicleRole_names` / `Cam.VehicleRole_values`: the
                              `VehicleRole ::= ENUMERATED` of the ASN.1 text the CAM coder compiles.
* `ALT_CONF_OP`               operator of `if epv <op> key` in `create_altitude_confidence`.
* `ELLIPSE_ORIENT_NS/EW`      semiMajorAxisOrientation written by `create_position_confidence` when epy >= epx / otherwise.
* `REC_CMP_OP`                operator of `if transformed_timestamp <op> utc_timestamp_in_millis` in
                              `GenerationDeltaTime.as_timestamp_in_certain_point` (0 `<`, 1 `<=`, 2 `>`, 3 `>=`), and
                              `REC_CYCLE` the literal cycle length used there.
* `CAM_TPV_CACHE_REPLACE`     1 iff `CAMTransmissionManagement.location_service_callback` stores the report itself
                              (`self._current_tpv = tpv`); 0 for any other expression (e.g. a merge with the old one).
* `CAM_TPV_UNLOCKED`          number of accesses to `self._current_tpv` outside `with self._tpv_lock` in the callback and
                              in `_evaluate_and_maybe_send`.
* `VAM_REPORT_DIRECT`         1 iff `VAMTransmissionManagement.location_service_callback` fills the VAM from its own
                              argument (`fullfill_with_tpv_data(tpv)`).
* `DENM_POS_FRESH`            1 iff `EmergencyVehicleApproachingService.trigger_denm_sending` starts from an event
                              position that does not depend on `self.event_position` (0: the previous one is carried over).
* `RX_CLOCK_EXACT_CAM/VAM`    1 iff the reception management reads the clock as `round(t * 1000000) // 1000`, 0 for the
                              truncating `int(t * 1000)`; any other shape is a generator failure.
* `CLUSTER_*_UNLOCKED`        number of accesses to `self._cluster` / `self._state` / `self._*substate` ... (any private
                              attribute of self) in `get_cluster_information_container`, `get_cluster_operation_container`
                              and `should_transmit_vam` of `VBSClusteringManager` that are NOT inside `with self._lock`,
                              and `CLUSTER_LOCK_REENTRANT`.

Round 4:
* `PH_LAT_LO/HI`, `PH_LON_LO/HI`  the interval of rounded offsets `_get_path_history` ACCEPTS (the complement of its
                              `if <test>: break` guards; recognised tests: `not (a <= x <= b)`, `x < a`, `x > b`, `or` of
                              those, `abs(x) > c`, `max(abs(x), abs(y)) > c`), `PH_CAP` (points after which the loop stops),
                              `PH_DT_LO/HI` (clamp of pathDeltaTime), `PH_DALT` (the deltaAltitude literal),
                              `PH_NEWEST_FIRST` (iteration `reversed(...)` over a list filled by `append`), `PH_STORE_CAP`
                              (entries kept by `_update_send_state`), and the ASN.1 side: `DeltaLatitude_*`,
                              `DeltaLongitude_*`, `DeltaAltitude_*`, `PathDeltaTime_*`, `Path_size_hi`,
                              `LF_PATH_SIZE_HI` (the `WITH COMPONENTS {..., pathHistory (SIZE (0..n))}` of the CAM module).
* `VAM_LDM_SNAPSHOT_DEEP`     1 iff `send_next_vam` / the VAM callback deep-copies the message (`copy.deepcopy(...)` /
                              `deepcopy(...)`) on the way to BTP, 0 for a shallow `.copy()` / `dict(...)` / no snapshot.
  `VAM_LDM_FEED_GUARDED`      1 iff every statement of the `if self.vru_basic_service_ldm is not None:` block lies in a
                              `try` with a handler for `Exception` (or bare), `VAM_LDM_BEFORE_BTP` 1 iff that block
                              precedes `btp_data_request`.
  `CHOICE_DEEPCOPYABLE`       false iff the value written as `clusterBoundingBoxShape` is an instance of a module-level
                              tuple subclass whose `__new__` needs other than one argument and that defines none of
                              `__reduce__`, `__reduce_ex__`, `__getnewargs__`, `__getnewargs_ex__`, `__deepcopy__`
                              (copy / deepcopy / pickle rebuild a tuple subclass as `cls.__new__(cls, <tuple>)`).
Round 5:
* `DENM_REQ_SNAPSHOT`         how `DENMTransmissionManagement.request_denm_sending` hands the request's event position to
                              the repetition thread it starts: 2 = a DEEP copy (`copy.deepcopy(<request>.event_position)`
                              / `deepcopy(...)`, or a deep copy of the whole request), 1 = a SHALLOW copy (`dict(...)`,
                              `copy.copy(...)`, `<pos>.copy()`, `{**<pos>}`: the nested altitude / confidence-ellipse records
                              stay the caller's objects), 0 = the caller's dictionary itself.  Names of the parameter and
                              of locals are not significant; any other shape is a generator failure.
"""
from __future__ import annotations

import ast
import re

import gen_lean
from gen_lean import write_if_changed, src

CAM_TM = "facilities/ca_basic_service/cam_transmission_management.py"
CAM_RX = "facilities/ca_basic_service/cam_reception_management.py"
VAM_TM = "facilities/vru_awareness_service/vam_transmission_management.py"
VAM_RX = "facilities/vru_awareness_service/vam_reception_management.py"
VRU_CL = "facilities/vru_awareness_service/vru_clustering.py"
EVA = "applications/road_hazard_signalling_service/emergency_vehicle_approaching_service.py"
DENM_TM = "facilities/decentralized_environmental_notification_service/denm_transmission_management.py"

OPS = {"Lt": 0, "LtE": 1, "Gt": 2, "GtE": 3}


def _func(tree, cls, name):
    for node in ast.walk(tree):
        if isinstance(node, ast.ClassDef) and node.name == cls:
            for f in node.body:
                if isinstance(f, ast.FunctionDef) and f.name == name:
                    return f
    raise ValueError(f"{cls}.{name} not found")


def _is_self_attr(node, attr=None):
    return (isinstance(node, ast.Attribute) and isinstance(node.value, ast.Name) and node.value.id == "self"
            and (attr is None or node.attr == attr))


def _with_locks(node, lock):
    return isinstance(node, ast.With) and any(_is_self_attr(i.context_expr, lock) for i in node.items)


def unlocked_accesses(fn, lock, attrs=None):
    """accesses `self.<a>` (a in attrs, or any private attribute other than the lock when attrs is None) in `fn` that
    are not lexically inside `with self.<lock>`"""
    out = []

    def visit(node, under):
        if _with_locks(node, lock):
            for ch in node.body:
                visit(ch, True)
            return
        if _is_self_attr(node) and node.attr != lock:
            hit = node.attr in attrs if attrs is not None else (node.attr.startswith("_") and not node.attr.startswith("__"))
            if hit and not under:
                out.append((node.attr, node.lineno))
        for ch in ast.iter_child_nodes(node):
            visit(ch, under)

    for st in fn.body:
        visit(st, False)
    return out


def role_table():
    tree = ast.parse(src(CAM_TM))
    for node in tree.body:
        if isinstance(node, ast.Assign) and any(isinstance(t, ast.Name) and t.id == "_VEHICLE_ROLE_NAMES" for t in node.targets):
            if isinstance(node.value, ast.List) and all(isinstance(e, ast.Constant) and isinstance(e.value, str) for e in node.value.elts):
                return [e.value for e in node.value.elts]
            raise ValueError("_VEHICLE_ROLE_NAMES is not a literal list of strings")
    raise ValueError("_VEHICLE_ROLE_NAMES not found")


FLIP = {"Lt": "Gt", "LtE": "GtE", "Gt": "Lt", "GtE": "LtE"}


def reconstruct_cmp():
    """operator of the one `if <local> <op> <parameter>` of as_timestamp_in_certain_point (names are not significant;
    `<parameter> <op> <local>` is read with the operator flipped)"""
    fn = _func(ast.parse(src(CAM_TM)), "GenerationDeltaTime", "as_timestamp_in_certain_point")
    param = fn.args.args[1].arg
    hits = []
    for node in ast.walk(fn):
        if isinstance(node, ast.If) and isinstance(node.test, ast.Compare) and len(node.test.ops) == 1:
            c = node.test
            op = type(c.ops[0]).__name__
            if isinstance(c.left, ast.Name) and isinstance(c.comparators[0], ast.Name) and op in OPS:
                if c.comparators[0].id == param and c.left.id != param:
                    hits.append(op)
                elif c.left.id == param and c.comparators[0].id != param:
                    hits.append(FLIP[op])
    if len(hits) != 1:
        raise ValueError(f"as_timestamp_in_certain_point: expected one comparison of the candidate with the reception time, found {hits}")
    cycles = sorted({n.value for n in ast.walk(fn) if isinstance(n, ast.Constant) and isinstance(n.value, int)
                     and not isinstance(n.value, bool) and n.value > 1})
    if cycles != [65536]:
        raise ValueError(f"as_timestamp_in_certain_point: unexpected integer literals {cycles}")
    return OPS[hits[0]], cycles[0]


def alt_conf_op():
    """operator of `if epv <op> key` in CooperativeAwarenessMessage.create_altitude_confidence (inherited by VAMMessage)"""
    fn = _func(ast.parse(src(CAM_TM)), "CooperativeAwarenessMessage", "create_altitude_confidence")
    param = fn.args.args[1].arg
    hits = [(type(n.ops[0]).__name__) for n in ast.walk(fn) if isinstance(n, ast.Compare) and len(n.ops) == 1
            and isinstance(n.left, ast.Name) and n.left.id == param and isinstance(n.comparators[0], ast.Name)]
    if len(hits) != 1 or hits[0] not in OPS:
        raise ValueError(f"create_altitude_confidence: unexpected comparisons {hits}")
    vam = ast.parse(src(VAM_TM))
    own = any(isinstance(c, ast.ClassDef) and c.name == "VAMMessage" and any(isinstance(f, ast.FunctionDef) and f.name == "create_altitude_confidence" for f in c.body)
              for c in vam.body)
    if own:
        raise ValueError("VAMMessage defines its own create_altitude_confidence (model assumes the inherited one)")
    return OPS[hits[0]]


def ellipse_orientation():
    """(orientation when epy >= epx, orientation otherwise) written by create_position_confidence"""
    fn = _func(ast.parse(src(CAM_TM)), "CooperativeAwarenessMessage", "create_position_confidence")
    vals = [v for n in ast.walk(fn) if isinstance(n, ast.Dict) for k, v in zip(n.keys, n.values)
            if isinstance(k, ast.Constant) and k.value == "semiMajorAxisOrientation"]
    if len(vals) != 1:
        raise ValueError("create_position_confidence: semiMajorAxisOrientation not found once")
    v = vals[0]
    if isinstance(v, ast.Constant) and isinstance(v.value, int):
        return v.value, v.value
    px, py = fn.args.args[1].arg, fn.args.args[2].arg          # (self, epx, epy)
    if (isinstance(v, ast.IfExp) and isinstance(v.body, ast.Constant) and isinstance(v.orelse, ast.Constant)
            and isinstance(v.test, ast.Compare) and len(v.test.ops) == 1
            and isinstance(v.test.left, ast.Name) and isinstance(v.test.comparators[0], ast.Name)):
        l, op, r = v.test.left.id, type(v.test.ops[0]).__name__, v.test.comparators[0].id
        if (l, op, r) in ((py, "GtE", px), (px, "LtE", py)):
            return v.body.value, v.orelse.value
        if (l, op, r) in ((px, "Gt", py), (py, "Lt", px)):
            return v.orelse.value, v.body.value
    raise ValueError(f"create_position_confidence: unknown orientation expression {ast.unparse(v)}")


def cam_cache_facts():
    tree = ast.parse(src(CAM_TM))
    cb = _func(tree, "CAMTransmissionManagement", "location_service_callback")
    arg = cb.args.args[1].arg
    stores = [n for n in ast.walk(cb) if isinstance(n, ast.Assign) and any(_is_self_attr(t, "_current_tpv") for t in n.targets)]
    if len(stores) != 1:
        raise ValueError(f"location_service_callback: {len(stores)} stores to self._current_tpv")
    replace = 1 if (isinstance(stores[0].value, ast.Name) and stores[0].value.id == arg) else 0
    ev = _func(tree, "CAMTransmissionManagement", "_evaluate_and_maybe_send")
    unlocked = len(unlocked_accesses(cb, "_tpv_lock", {"_current_tpv"})) + len(unlocked_accesses(ev, "_tpv_lock", {"_current_tpv"}))
    return replace, unlocked


def vam_report_direct():
    cb = _func(ast.parse(src(VAM_TM)), "VAMTransmissionManagement", "location_service_callback")
    arg = cb.args.args[1].arg
    calls = [n for n in ast.walk(cb) if isinstance(n, ast.Call) and isinstance(n.func, ast.Attribute)
             and n.func.attr == "fullfill_with_tpv_data"]
    if len(calls) != 1:
        raise ValueError(f"VAM location_service_callback: {len(calls)} fullfill_with_tpv_data calls")
    a = calls[0].args
    return 1 if (len(a) == 1 and isinstance(a[0], ast.Name) and a[0].id == arg) else 0


def denm_pos_fresh():
    fn = _func(ast.parse(src(EVA)), "EmergencyVehicleApproachingService", "trigger_denm_sending")
    stores = sorted((n for n in ast.walk(fn) if isinstance(n, ast.Assign) and any(_is_self_attr(t, "event_position") for t in n.targets)),
                    key=lambda n: n.lineno)
    if not stores:
        # the position object is updated in place: carried over
        return 0
    first = stores[0]
    # every use of self.event_position before the first store would also be a carry-over; the builders only subscript
    # it after the store
    early = [n for n in ast.walk(fn) if _is_self_attr(n, "event_position") and n.lineno < first.lineno]
    depends = any(_is_self_attr(n, "event_position") for n in ast.walk(first.value))
    return 0 if (depends or early) else 1


def rx_clock_exact(path, cls):
    """how `reception_callback` reads the clock in milliseconds (the expression may be bound to a local first)"""
    fn = _func(ast.parse(src(path)), cls, "reception_callback")
    calls = [n for n in ast.walk(fn) if isinstance(n, ast.Call) and isinstance(n.func, ast.Attribute)
             and n.func.attr == "as_timestamp_in_certain_point"]
    if len(calls) != 1 or len(calls[0].args) != 1:
        raise ValueError(f"{cls}.reception_callback: unexpected use of as_timestamp_in_certain_point")

    def is_clock_times(node, k):
        return (isinstance(node, ast.BinOp) and isinstance(node.op, ast.Mult) and isinstance(node.right, ast.Constant)
                and node.right.value == k and isinstance(node.left, ast.Call) and isinstance(node.left.func, ast.Attribute)
                and node.left.func.attr == "time" and isinstance(node.left.func.value, ast.Name)
                and node.left.func.value.id == "TimeService")

    trunc = exact = 0
    for a in ast.walk(fn):
        if isinstance(a, ast.Call) and isinstance(a.func, ast.Name) and a.func.id == "int" and len(a.args) == 1 and is_clock_times(a.args[0], 1000):
            trunc += 1
        if (isinstance(a, ast.BinOp) and isinstance(a.op, ast.FloorDiv) and isinstance(a.right, ast.Constant) and a.right.value == 1000
                and isinstance(a.left, ast.Call) and isinstance(a.left.func, ast.Name) and a.left.func.id == "round"
                and len(a.left.args) == 1 and is_clock_times(a.left.args[0], 1000000)):
            exact += 1
    if trunc:
        return 0
    if exact:
        return 1
    raise ValueError(f"{cls}.reception_callback: unknown clock expression {ast.unparse(calls[0].args[0])}")


def cluster_lock_facts():
    tree = ast.parse(src(VRU_CL))
    out = {}
    for m in ("get_cluster_information_container", "get_cluster_operation_container", "should_transmit_vam"):
        out[m] = unlocked_accesses(_func(tree, "VBSClusteringManager", m), "_lock")
    init = _func(tree, "VBSClusteringManager", "__init__")
    ctor = [n.value for n in ast.walk(init) if isinstance(n, ast.Assign) and any(_is_self_attr(t, "_lock") for t in n.targets)]
    name = ""
    if len(ctor) == 1 and isinstance(ctor[0], ast.Call):
        f = ctor[0].func
        name = f.attr if isinstance(f, ast.Attribute) else getattr(f, "id", "")
    if name not in ("Lock", "RLock"):
        raise ValueError("VBSClusteringManager._lock is not created by Lock()/RLock()")
    return out, name == "RLock"


# ---------------------------------------------------------------------------------------------
# round 4: path history of the CAM low-frequency container


BIG = 10 ** 12          # "no bound" (an obligation `lo >= DeltaLatitude_lo` then fails)


def _int_const(node):
    """integer value of a literal (with unary minus), else None"""
    if isinstance(node, ast.Constant) and isinstance(node.value, int) and not isinstance(node.value, bool):
        return node.value
    if isinstance(node, ast.UnaryOp) and isinstance(node.op, ast.USub):
        v = _int_const(node.operand)
        return None if v is None else -v
    return None


def _abs_of(node):
    if isinstance(node, ast.Call) and isinstance(node.func, ast.Name) and node.func.id == "abs" and len(node.args) == 1 \
            and isinstance(node.args[0], ast.Name):
        return node.args[0].id
    return None


class _Accept:
    """accepted interval per variable, narrowed by every break guard"""

    def __init__(self, names):
        self.iv = {n: [-BIG, BIG] for n in names}

    def ge(self, n, v):
        self.iv[n][0] = max(self.iv[n][0], v)

    def le(self, n, v):
        self.iv[n][1] = min(self.iv[n][1], v)

    def reject(self, test):
        """the loop is left when `test` holds: narrow the accepted region to `not test`"""
        if isinstance(test, ast.BoolOp) and isinstance(test.op, ast.Or):
            for v in test.values:
                self.reject(v)
            return
        if isinstance(test, ast.UnaryOp) and isinstance(test.op, ast.Not):
            self.require(test.operand)
            return
        if isinstance(test, ast.Compare) and len(test.ops) == 1:
            l, op, r = test.left, type(test.ops[0]).__name__, test.comparators[0]
            if _int_const(l) is not None and _int_const(r) is None:
                l, op, r = r, FLIP.get(op, op), l
            c = _int_const(r)
            if c is not None and op in OPS:
                names = None
                if isinstance(l, ast.Name) and l.id in self.iv:
                    if op == "Lt":
                        self.ge(l.id, c)
                    elif op == "LtE":
                        self.ge(l.id, c + 1)
                    elif op == "Gt":
                        self.le(l.id, c)
                    else:
                        self.le(l.id, c - 1)
                    return
                if _abs_of(l) in self.iv:
                    names = [_abs_of(l)]
                elif isinstance(l, ast.Call) and isinstance(l.func, ast.Name) and l.func.id == "max" and l.args \
                        and all(_abs_of(a) in self.iv for a in l.args):
                    names = [_abs_of(a) for a in l.args]
                if names and op in ("Gt", "GtE"):
                    b = c if op == "Gt" else c - 1
                    for n in names:
                        self.ge(n, -b)
                        self.le(n, b)
                    return
        raise ValueError(f"_get_path_history: unrecognised break guard `{ast.unparse(test)}`")

    def require(self, test):
        """the loop continues only when `test` holds"""
        if isinstance(test, ast.BoolOp) and isinstance(test.op, ast.And):
            for v in test.values:
                self.require(v)
            return
        if isinstance(test, ast.Compare):
            terms = [test.left] + list(test.comparators)
            for a, op, b in zip(terms, test.ops, terms[1:]):
                op = type(op).__name__
                if op not in OPS:
                    raise ValueError(f"_get_path_history: unrecognised guard `{ast.unparse(test)}`")
                if isinstance(b, ast.Name) and b.id in self.iv and _int_const(a) is not None:
                    a, op, b = b, FLIP[op], a
                c = _int_const(b)
                if not (isinstance(a, ast.Name) and a.id in self.iv and c is not None):
                    raise ValueError(f"_get_path_history: unrecognised guard `{ast.unparse(test)}`")
                if op == "Lt":
                    self.le(a.id, c - 1)
                elif op == "LtE":
                    self.le(a.id, c)
                elif op == "Gt":
                    self.ge(a.id, c + 1)
                else:
                    self.ge(a.id, c)
            return
        raise ValueError(f"_get_path_history: unrecognised guard `{ast.unparse(test)}`")


def path_history_facts():
    tree = ast.parse(src(CAM_TM))
    fn = _func(tree, "CAMTransmissionManagement", "_get_path_history")
    loops = [n for n in ast.walk(fn) if isinstance(n, ast.For)]
    if len(loops) != 1 or not isinstance(loops[0].target, ast.Tuple) or len(loops[0].target.elts) != 3:
        raise ValueError("_get_path_history: expected one loop over (lat, lon, time) entries")
    loop = loops[0]
    v_lat, v_lon, v_t = (e.id for e in loop.target.elts)
    it = loop.iter
    newest_first = int(isinstance(it, ast.Call) and isinstance(it.func, ast.Name) and it.func.id == "reversed"
                       and len(it.args) == 1 and _is_self_attr(it.args[0], "_path_history"))
    if not newest_first and not _is_self_attr(it, "_path_history"):
        raise ValueError(f"_get_path_history: unknown iteration `{ast.unparse(it)}`")
    # the rounded offsets: locals assigned `round(<expr mentioning the loop variable>)`
    role = {}
    dt = None
    for st in loop.body:
        if isinstance(st, ast.Assign) and len(st.targets) == 1 and isinstance(st.targets[0], ast.Name):
            used = {n.id for n in ast.walk(st.value) if isinstance(n, ast.Name)}
            rounds = [n for n in ast.walk(st.value) if isinstance(n, ast.Call) and isinstance(n.func, ast.Name) and n.func.id == "round"]
            if len(rounds) != 1:
                raise ValueError(f"_get_path_history: `{ast.unparse(st)}` is not a rounded quantity")
            if v_lat in used and st.value is rounds[0]:
                role["lat"] = st.targets[0].id
            elif v_lon in used and st.value is rounds[0]:
                role["lon"] = st.targets[0].id
            elif v_t in used:
                # max(lo, min(hi, round(...)))
                v = st.value
                ok = (isinstance(v, ast.Call) and getattr(v.func, "id", "") == "max" and len(v.args) == 2
                      and _int_const(v.args[0]) is not None and isinstance(v.args[1], ast.Call)
                      and getattr(v.args[1].func, "id", "") == "min" and len(v.args[1].args) == 2
                      and _int_const(v.args[1].args[0]) is not None and v.args[1].args[1] is rounds[0])
                if not ok:
                    raise ValueError(f"_get_path_history: pathDeltaTime is not `max(lo, min(hi, round(...)))`: `{ast.unparse(v)}`")
                dt = (_int_const(v.args[0]), _int_const(v.args[1].args[0]))
            else:
                raise ValueError(f"_get_path_history: unexpected assignment `{ast.unparse(st)}`")
    if set(role) != {"lat", "lon"} or dt is None:
        raise ValueError("_get_path_history: rounded latitude / longitude offsets or pathDeltaTime not found")
    acc = _Accept([role["lat"], role["lon"]])
    cap = None
    appended = False
    for st in loop.body:
        if isinstance(st, ast.If):
            if not (len(st.body) == 1 and isinstance(st.body[0], ast.Break) and not st.orelse):
                raise ValueError(f"_get_path_history: `if {ast.unparse(st.test)}` does not simply leave the loop")
            t = st.test
            is_len = (isinstance(t, ast.Compare) and len(t.ops) == 1 and isinstance(t.left, ast.Call)
                      and getattr(t.left.func, "id", "") == "len" and _int_const(t.comparators[0]) is not None)
            if is_len:
                if not appended:
                    raise ValueError("_get_path_history: the size test precedes the append")
                op, c = type(t.ops[0]).__name__, _int_const(t.comparators[0])
                cap = {"GtE": c, "Gt": c + 1, "Eq": c}.get(op)
                if cap is None:
                    raise ValueError(f"_get_path_history: unknown size test `{ast.unparse(t)}`")
            else:
                if appended:
                    raise ValueError("_get_path_history: a range guard follows the append")
                acc.reject(t)
        elif isinstance(st, ast.Expr) and isinstance(st.value, ast.Call) and isinstance(st.value.func, ast.Attribute) \
                and st.value.func.attr == "append":
            appended = True
    if not appended:
        raise ValueError("_get_path_history: no append in the loop")
    dalt = [_int_const(v) for n in ast.walk(loop) if isinstance(n, ast.Dict) for k, v in zip(n.keys, n.values)
            if isinstance(k, ast.Constant) and k.value == "deltaAltitude"]
    if len(dalt) != 1 or dalt[0] is None:
        raise ValueError("_get_path_history: deltaAltitude is not one integer literal")
    # the store: `_update_send_state` appends and drops the oldest entry beyond the cap
    up = _func(tree, "CAMTransmissionManagement", "_update_send_state")
    caps = [(_int_const(n.test.comparators[0]), type(n.test.ops[0]).__name__) for n in ast.walk(up)
            if isinstance(n, ast.If) and isinstance(n.test, ast.Compare) and len(n.test.ops) == 1
            and isinstance(n.test.left, ast.Call) and getattr(n.test.left.func, "id", "") == "len"
            and n.test.left.args and _is_self_attr(n.test.left.args[0], "_path_history")]
    appends = [n for n in ast.walk(up) if isinstance(n, ast.Call) and isinstance(n.func, ast.Attribute)
               and n.func.attr == "append" and _is_self_attr(n.func.value, "_path_history")]
    pops = [n for n in ast.walk(up) if isinstance(n, ast.Call) and isinstance(n.func, ast.Attribute)
            and n.func.attr == "pop" and _is_self_attr(n.func.value, "_path_history")
            and len(n.args) == 1 and _int_const(n.args[0]) == 0]
    if len(caps) != 1 or caps[0][0] is None or caps[0][1] not in ("Gt", "GtE") or len(appends) != 1 or len(pops) != 1:
        raise ValueError("_update_send_state: path history store is not `append` + `if len > n: pop(0)`")
    store_cap = caps[0][0] if caps[0][1] == "Gt" else caps[0][0] - 1
    (la_lo, la_hi), (lo_lo, lo_hi) = acc.iv[role["lat"]], acc.iv[role["lon"]]
    return {"PH_LAT_LO": la_lo, "PH_LAT_HI": la_hi, "PH_LON_LO": lo_lo, "PH_LON_HI": lo_hi,
            "PH_CAP": cap if cap is not None else BIG, "PH_DT_LO": dt[0], "PH_DT_HI": dt[1], "PH_DALT": dalt[0],
            "PH_NEWEST_FIRST": newest_first, "PH_STORE_CAP": store_cap}


def path_asn1_facts():
    import gen_fac
    text = gen_fac.asn1_texts()["Cam"]
    ints = gen_fac.parse_integers(text)
    out = []
    for n in ("DeltaLatitude", "DeltaLongitude", "DeltaAltitude", "PathDeltaTime"):
        if n not in ints:
            raise ValueError(f"Cam: INTEGER type {n} not found in the ASN.1 text")
        lo, hi, named = ints[n]
        out.append((f"{n}_lo", lo))
        out.append((f"{n}_hi", hi))
        for k, v in sorted(named.items(), key=lambda kv: kv[1]):
            out.append((f"{n}_{k}", v))
    m = re.search(r"^\s*Path\s*::=\s*SEQUENCE\s*\(\s*SIZE\s*\(\s*(\d+)\s*\.\.\s*(\d+)\s*\)\s*\)\s*OF\s+PathPoint", text, re.M)
    if not m:
        raise ValueError("Cam: `Path ::= SEQUENCE (SIZE(..)) OF PathPoint` not found")
    out.append(("Path_size_hi", int(m.group(2))))
    m = re.search(r"BasicVehicleContainerLowFrequency\s*\(\s*WITH COMPONENTS\s*\{[^}]*pathHistory\s*\(\s*SIZE\s*\(\s*(\d+)\s*\.\.\s*(\d+)\s*\)", text)
    if not m:
        raise ValueError("Cam: the `WITH COMPONENTS {..., pathHistory (SIZE (..))}` constraint of the LF container not found")
    out.append(("LF_PATH_SIZE_HI", int(m.group(2))))
    return out


# ---------------------------------------------------------------------------------------------
# round 4: the VAM on its way to BTP (LDM snapshot / feed) and the CHOICE value of the cluster container


def vam_ldm_facts():
    tree = ast.parse(src(VAM_TM))
    deep = 0
    for name in ("send_next_vam", "location_service_callback"):
        fn = _func(tree, "VAMTransmissionManagement", name)
        for n in ast.walk(fn):
            if isinstance(n, ast.Call):
                f = n.func
                fname = f.attr if isinstance(f, ast.Attribute) else getattr(f, "id", "")
                if fname == "deepcopy":
                    deep = 1
    fn = _func(tree, "VAMTransmissionManagement", "send_next_vam")

    def is_ldm_test(t):
        return any(_is_self_attr(n, "vru_basic_service_ldm") for n in ast.walk(t))

    blocks = [n for n in ast.walk(fn) if isinstance(n, ast.If) and is_ldm_test(n.test)]
    if len(blocks) > 1:
        raise ValueError("send_next_vam: more than one LDM block")
    btp = [n.lineno for n in ast.walk(fn) if isinstance(n, ast.Call) and isinstance(n.func, ast.Attribute)
           and n.func.attr == "btp_data_request"]
    if len(btp) != 1:
        raise ValueError("send_next_vam: expected one btp_data_request")
    if not blocks:
        return deep, 1, 0
    blk = blocks[0]

    def catches_all(tr):
        return any(h.type is None or (isinstance(h.type, ast.Name) and h.type.id in ("Exception", "BaseException"))
                   for h in tr.handlers)

    guarded = int(all(isinstance(st, ast.Try) and catches_all(st) for st in blk.body))
    if not guarded:
        # the whole `if` inside a try that swallows?
        for n in ast.walk(fn):
            if isinstance(n, ast.Try) and catches_all(n) and any(blk is m for b in n.body for m in ast.walk(b)):
                # only counts when the handler does not leave the function before the encoding
                if not any(isinstance(x, (ast.Return, ast.Raise)) for h in n.handlers for x in ast.walk(h)):
                    if not any(isinstance(c, ast.Call) and isinstance(c.func, ast.Attribute) and c.func.attr == "btp_data_request"
                               for b in n.body for c in ast.walk(b)):
                        guarded = 1
    return deep, guarded, int(blk.lineno < btp[0])


def choice_deepcopyable():
    tree = ast.parse(src(VRU_CL))
    fn = _func(tree, "VBSClusteringManager", "get_cluster_information_container")
    vals = [v for n in ast.walk(fn) if isinstance(n, ast.Dict) for k, v in zip(n.keys, n.values)
            if isinstance(k, ast.Constant) and k.value == "clusterBoundingBoxShape"]
    if len(vals) != 1:
        raise ValueError("get_cluster_information_container: clusterBoundingBoxShape not written once")
    v = vals[0]
    if isinstance(v, ast.Tuple):
        return True
    if not (isinstance(v, ast.Call) and isinstance(v.func, ast.Name)):
        raise ValueError(f"clusterBoundingBoxShape: unknown value `{ast.unparse(v)}`")
    if v.func.id == "tuple":
        return True
    cls = [c for c in tree.body if isinstance(c, ast.ClassDef) and c.name == v.func.id]
    if len(cls) != 1:
        raise ValueError(f"clusterBoundingBoxShape: class {v.func.id} not found at module level")
    c = cls[0]
    bases = [getattr(b, "id", getattr(b, "attr", "")) for b in c.bases]
    methods = {f.name: f for f in c.body if isinstance(f, ast.FunctionDef)}
    if any(m in methods for m in ("__reduce__", "__reduce_ex__", "__getnewargs__", "__getnewargs_ex__", "__deepcopy__")):
        return True
    if "tuple" not in bases:
        raise ValueError(f"class {c.name}: not a tuple subclass (bases {bases}); copy behaviour unknown")
    new = methods.get("__new__")
    if new is None:
        return True
    a = new.args
    required = len(a.args) - 1 - len(a.defaults)          # positional parameters after `cls` without default
    takes_one = required <= 1 and (len(a.args) - 1 >= 1 or a.vararg is not None)
    return bool(takes_one)


def _call_name(c):
    """`copy.deepcopy(x)` -> 'deepcopy', `dict(x)` -> 'dict', `x.copy()` -> '.copy' (method of a non-module value)"""
    f = c.func
    if isinstance(f, ast.Name):
        return f.id
    if isinstance(f, ast.Attribute):
        if isinstance(f.value, ast.Name) and f.value.id in ("copy", "dataclasses"):
            return f.attr
        return "." + f.attr
    return "?"


def denm_request_snapshot():
    """copy level (0 alias / 1 shallow / 2 deep) of the event position inside the request that
    `request_denm_sending` passes to the thread it starts (round 5)"""
    fn = _func(ast.parse(src(DENM_TM)), "DENMTransmissionManagement", "request_denm_sending")
    params = [a.arg for a in fn.args.args]
    if len(params) != 2:
        raise ValueError("request_denm_sending: expected (self, request)")
    env = {params[1]: ("req", 0)}

    def ev(node):
        """-> ('req', level) | ('pos', level): level = how far the position is detached from the caller's objects"""
        if isinstance(node, ast.Name):
            if node.id in env:
                return env[node.id]
            raise ValueError(f"request_denm_sending: unknown name `{node.id}`")
        if isinstance(node, ast.Attribute) and node.attr == "event_position":
            k, lvl = ev(node.value)
            if k != "req":
                raise ValueError("request_denm_sending: event_position of a non-request")
            return ("pos", lvl)
        if isinstance(node, ast.Dict) and len(node.keys) == 1 and node.keys[0] is None:      # {**pos}
            k, lvl = ev(node.values[0])
            if k == "pos":
                return ("pos", max(lvl, 1))
        if isinstance(node, ast.Call):
            name = _call_name(node)
            if name == "deepcopy" and len(node.args) >= 1:
                k, _ = ev(node.args[0])
                return (k, 2)
            if name in ("dict", "copy") and len(node.args) == 1 and not node.keywords:
                k, lvl = ev(node.args[0])
                return (k, max(lvl, 1)) if k == "pos" else (k, lvl)       # a shallow copy of the request shares its position
            if name == ".copy" and not node.args:
                k, lvl = ev(node.func.value)
                if k == "pos":
                    return ("pos", max(lvl, 1))
            if name == "replace" and len(node.args) == 1:
                k, lvl = ev(node.args[0])
                if k != "req":
                    raise ValueError("request_denm_sending: replace() of a non-request")
                for kw in node.keywords:
                    if kw.arg == "event_position":
                        k2, lvl2 = ev(kw.value)
                        if k2 != "pos":
                            raise ValueError("request_denm_sending: event_position= is not a position")
                        return ("req", lvl2)
                    if kw.arg is None:
                        raise ValueError("request_denm_sending: replace(**...)")
                return ("req", lvl)
        raise ValueError(f"request_denm_sending: unrecognised expression `{ast.unparse(node)}`")

    def is_thread(n):
        return isinstance(n, ast.Call) and (
            (isinstance(n.func, ast.Attribute) and n.func.attr in ("Thread", "Timer"))
            or (isinstance(n.func, ast.Name) and n.func.id in ("Thread", "Timer")))

    level = None
    for st in fn.body:
        if isinstance(st, ast.Expr) and isinstance(st.value, ast.Constant):
            continue                                                             # docstring
        for n in ast.walk(st):
            if is_thread(n):
                args = [kw.value for kw in n.keywords if kw.arg == "args"]
                if len(args) != 1 or not isinstance(args[0], (ast.List, ast.Tuple)) or len(args[0].elts) != 1:
                    raise ValueError("request_denm_sending: thread arguments not a one-element list")
                k, lvl = ev(args[0].elts[0])
                if k != "req":
                    raise ValueError("request_denm_sending: the thread is not handed a request")
                level = lvl if level is None else min(level, lvl)
        if isinstance(st, ast.Assign) and len(st.targets) == 1 and isinstance(st.targets[0], ast.Name):
            if is_thread(st.value):
                env.pop(st.targets[0].id, None)             # `t = threading.Thread(...)`
                continue
            try:
                env[st.targets[0].id] = ev(st.value)
            except ValueError:
                if any(isinstance(n, ast.Name) and n.id in env for n in ast.walk(st.value)):
                    raise                                   # an expression over the request we cannot classify
                env.pop(st.targets[0].id, None)
    if level is None:
        raise ValueError("request_denm_sending: no thread started with the request")
    return level


def vehicle_role_enum():
    import gen_fac
    return gen_fac.parse_enum(gen_fac.asn1_texts()["Cam"], "VehicleRole")


@gen_lean.register(props=["C11"])
def gen_fac_c11():
    body = "namespace Generated.Fac11\n"
    names = role_table()
    body += "/-- `_VEHICLE_ROLE_NAMES` of cam_transmission_management.py (index = VehicleData.vehicle_role) -/\n"
    body += "def VEHICLE_ROLE_NAMES : List String := [" + ", ".join(f'"{n}"' for n in names) + "]\n"
    en = vehicle_role_enum()
    body += "/-- `VehicleRole ::= ENUMERATED` of the ASN.1 text the CAM coder compiles -/\n"
    body += "def VehicleRole_names : List String := [" + ", ".join(f'"{k}"' for k, _ in en) + "]\n"
    body += "def VehicleRole_values : List Nat := [" + ", ".join(str(v) for _, v in en) + "]\n"
    body += "/-- operator of `epv <op> key` in create_altitude_confidence (0 `<`, 1 `<=`) -/\n"
    body += f"def ALT_CONF_OP : Nat := {alt_conf_op()}\n"
    ons, oew = ellipse_orientation()
    body += "/-- semiMajorAxisOrientation written when epy >= epx (north-south major axis) / otherwise (east-west) -/\n"
    body += f"def ELLIPSE_ORIENT_NS : Int := {ons}\ndef ELLIPSE_ORIENT_EW : Int := {oew}\n"
    op, cyc = reconstruct_cmp()
    body += "/-- comparison operator codes: 0 `<`, 1 `<=`, 2 `>`, 3 `>=` -/\n"
    body += f"def REC_CMP_OP : Nat := {op}\ndef REC_CYCLE : Nat := {cyc}\n"
    rep, unl = cam_cache_facts()
    body += f"def CAM_TPV_CACHE_REPLACE : Nat := {rep}\ndef CAM_TPV_UNLOCKED : Nat := {unl}\n"
    body += f"def VAM_REPORT_DIRECT : Nat := {vam_report_direct()}\n"
    body += f"def DENM_POS_FRESH : Nat := {denm_pos_fresh()}\n"
    body += f"def RX_CLOCK_EXACT_CAM : Nat := {rx_clock_exact(CAM_RX, 'CAMReceptionManagement')}\n"
    body += f"def RX_CLOCK_EXACT_VAM : Nat := {rx_clock_exact(VAM_RX, 'VAMReceptionManagement')}\n"
    facts, reentrant = cluster_lock_facts()
    body += "/-- accesses to private attributes of the clustering manager outside `with self._lock` (attribute, line) -/\n"
    for m, tag in (("get_cluster_information_container", "CLUSTER_INFO"), ("get_cluster_operation_container", "CLUSTER_OP"),
                   ("should_transmit_vam", "CLUSTER_SHOULD_TX")):
        body += f"def {tag}_UNLOCKED : List (String × Nat) := [" + ", ".join(f'("{a}", {ln})' for a, ln in facts[m]) + "]\n"
    body += f"def CLUSTER_LOCK_REENTRANT : Bool := {'true' if reentrant else 'false'}\n"
    body += "/-- round 4: `_get_path_history` (accepted interval of the rounded offsets, loop cap, pathDeltaTime clamp ...) -/\n"
    for k, v in path_history_facts().items():
        body += f"def {k} : Int := {v}\n"
    body += "/-- the path elements of the ASN.1 text the CAM coder compiles -/\n"
    for k, v in path_asn1_facts():
        body += f"def {k} : Int := {v}\n"
    deep, guarded, before = vam_ldm_facts()
    body += "/-- round 4: the VAM between construction and BTP -/\n"
    body += f"def VAM_LDM_SNAPSHOT_DEEP : Nat := {deep}\ndef VAM_LDM_FEED_GUARDED : Nat := {guarded}\ndef VAM_LDM_BEFORE_BTP : Nat := {before}\n"
    body += f"def CHOICE_DEEPCOPYABLE : Bool := {'true' if choice_deepcopyable() else 'false'}\n"
    body += "/-- round 5: copy level of the event position `request_denm_sending` hands to the repetition thread (2 deep, 1 shallow, 0 alias) -/\n"
    body += f"def DENM_REQ_SNAPSHOT : Nat := {denm_request_snapshot()}\n"
    body += "end Generated.Fac11\n"
    write_if_changed("FacC11.lean", body)

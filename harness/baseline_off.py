#!/venv/bin/python
"""Run the repository's pinned test suite with the verification guard OFF and compare with
/root/.vp/BASELINE.json (every stable_pass test must still pass).  Exit 0 iff so."""
import json, os, subprocess, sys, tempfile
import xml.etree.ElementTree as ET

def main():
    env = dict(os.environ)
    env.pop("FLEXSTACK_VERIF", None)
    with tempfile.TemporaryDirectory() as d:
        xml = os.path.join(d, "junit.xml")
        subprocess.run(["/venv/bin/python", "-m", "pytest", "-ra", "-q", "-p", "no:cacheprovider",
                        "--timeout=900", "--continue-on-collection-errors", f"--junitxml={xml}"],
                       cwd="/repo", env=env, stdout=subprocess.DEVNULL, stderr=subprocess.DEVNULL)
        passed = set()
        for tc in ET.parse(xml).getroot().iter("testcase"):
            if not any(ch.tag in ("failure", "error", "skipped") for ch in tc):
                passed.add(f"{tc.get('classname')}::{tc.get('name')}")
    base_path = "/root/.vp/BASELINE.json"
    if not os.path.exists(base_path):
        print(f"passed={len(passed)} (no baseline file to compare)")
        return 0
    base = set(json.load(open(base_path))["stable_pass"])
    missing = sorted(base - passed)
    print(f"passed={len(passed)} baseline={len(base)} missing={len(missing)}")
    for m in missing[:50]:
        print("MISSING", m)
    return 1 if missing else 0

if __name__ == "__main__":
    sys.exit(main())

"""Shared machinery of the FlexStack verification harness (see /verif/DESIGN.md §2-4).

Every check `vcheck.py Cxx` goes through the same pipeline:
  1 regenerate lean/Generated/*.lean from /repo           (gen_lean.py)
  2 lake build Driver.Main (models) and Props.Cxx (theorems)   [under flock]
  3 audit: forbidden tokens, `#audit_module Props.Cxx` axioms ⊆ {propext, Classical.choice, Quot.sound}
  4 corpus + known-finding witnesses replayed on the real code
  5 correspondence Impl-model vs real code, Spec oracle on real traces     (props/cXX.py: run(ctx))
  6 verdict                                                     (VIOLATION / KNOWN-FINDING / exit code)
"""
from __future__ import annotations

import collections
import fcntl
import hashlib
import json
import os
import random
import re
import subprocess
import sys
import tempfile
import time

HERE = os.path.dirname(os.path.abspath(__file__))
VERIF = os.path.dirname(HERE)
LEAN = os.path.join(VERIF, "lean")
REPO = os.environ.get("FLEXSTACK_REPO", "/repo")
# evidence/ describes runs against /repo itself; a run pointed at another tree (seed tests, builders' worktrees)
# writes to replays/evidence_other_tree/ (git-ignored) so that it never clobbers the registered evidence
EVIDENCE_DIR = (os.path.join(VERIF, "evidence") if os.path.realpath(REPO) == os.path.realpath("/repo")
                else os.path.join(VERIF, "replays", "evidence_other_tree"))
REPLAY_DIR = os.path.join(VERIF, "replays")
CORPUS_DIR = os.path.join(VERIF, "corpus")
ALLOWED_AXIOMS = {"propext", "Classical.choice", "Quot.sound"}
# `admit` is not grepped (it is a legitimate identifier in models); as a tactic it elaborates to `sorryAx`,
# which the per-theorem axiom audit rejects.
FORBIDDEN = re.compile(r"\b(sorry|native_decide|bv_decide|implemented_by)\b|\bunsafe\s|^\s*axiom\s|maxHeartbeats\s+0\b")

TRUSTED_BASE_COMMON = [
    "Lean 4.33.0 kernel (theorems in lean/Props; axioms audited per theorem on every run: subset of propext, Classical.choice, Quot.sound)",
    "Lean interpreter running the model definitions in the line-protocol driver (correspondence only)",
    "harness/*.py: generators, canonicalisers, abstraction of real objects to model inputs, gen_lean.py",
]

if os.path.join(REPO, "src") not in sys.path:
    sys.path.insert(0, os.path.join(REPO, "src"))


class Infra(Exception):
    """infrastructure failure (exit 2, never a VIOLATION)"""


def strip_lean_comments(text: str) -> str:
    out, i, depth = [], 0, 0
    n = len(text)
    while i < n:
        if text.startswith("/-", i):
            depth += 1
            i += 2
        elif depth and text.startswith("-/", i):
            depth -= 1
            i += 2
        elif depth:
            if text[i] == "\n":
                out.append("\n")
            i += 1
        elif text.startswith("--", i):
            while i < n and text[i] != "\n":
                i += 1
        else:
            out.append(text[i])
            i += 1
    return "".join(out)


def lean_sources():
    for root in ("FlexModel", "Props", "Generated", "Driver"):
        for d, _, files in os.walk(os.path.join(LEAN, root)):
            for f in files:
                if f.endswith(".lean"):
                    yield os.path.join(d, f)


def import_closure(modules):
    """lean source files (inside this project) transitively imported by `modules`"""
    seen, todo, files = set(), list(modules), []
    while todo:
        m = todo.pop()
        if m in seen:
            continue
        seen.add(m)
        path = os.path.join(LEAN, *m.split(".")) + ".lean"
        if not os.path.exists(path):
            continue
        files.append(path)
        for line in open(path, encoding="utf-8"):
            mm = re.match(r"\s*(?:public\s+)?import\s+([\w.]+)", line)
            if mm:
                todo.append(mm.group(1))
    return sorted(files)


def forbidden_scan(modules=None):
    """non-comment occurrences of sorry/axiom/native_decide/… in the lean sources the property depends on"""
    hits = []
    for p in (import_closure(modules) if modules else lean_sources()):
        txt = strip_lean_comments(open(p, encoding="utf-8").read())
        for ln, line in enumerate(txt.split("\n"), 1):
            if FORBIDDEN.search(line):
                hits.append(f"{os.path.relpath(p, LEAN)}:{ln}: {line.strip()[:120]}")
    return hits


class BuildLock:
    """exclusive lock around "regenerate lean/Generated + lake build" (re-entrant within one process)"""
    _depth = 0
    _f = None

    def __enter__(self):
        if BuildLock._depth == 0:
            BuildLock._f = open(os.path.join(LEAN, ".build.lock"), "w")
            fcntl.flock(BuildLock._f, fcntl.LOCK_EX)
        BuildLock._depth += 1
        return self

    def __exit__(self, *a):
        BuildLock._depth -= 1
        if BuildLock._depth == 0:
            fcntl.flock(BuildLock._f, fcntl.LOCK_UN)
            BuildLock._f.close()
            BuildLock._f = None


_RUN_LOCK = None


def acquire_run_lock():
    """Checks against /repo itself share lean/Generated and may overlap (shared lock).  A check pointed at ANOTHER tree
    (FLEXSTACK_REPO=<scratch worktree with a seeded change>) regenerates lean/Generated from that tree, which would make
    concurrently running checks see facts of the wrong tree: it takes the lock exclusively for its whole run."""
    global _RUN_LOCK
    _RUN_LOCK = open(os.path.join(LEAN, ".run.lock"), "w")
    other_tree = os.path.realpath(REPO) != os.path.realpath("/repo")
    fcntl.flock(_RUN_LOCK, fcntl.LOCK_EX if other_tree else fcntl.LOCK_SH)


def lake_build(targets, timeout=3000):
    """returns (ok, log)"""
    with BuildLock():
        try:
            p = subprocess.run(["lake", "build", *targets], cwd=LEAN, capture_output=True, text=True, timeout=timeout)
        except FileNotFoundError as e:
            raise Infra(f"lake not found: {e}")
        except subprocess.TimeoutExpired:
            raise Infra("lake build timed out")
    log = p.stdout + p.stderr
    return p.returncode == 0, log


def leanchecker(modules, timeout=1500):
    """independent re-check of the compiled .olean files of `modules` (and what they import from this package) by
    the toolchain's `leanchecker`; returns (ok, tail of output).  Thorough tier only (1-2 min per module)."""
    try:
        p = subprocess.run(["lake", "env", "leanchecker", *modules], cwd=LEAN, capture_output=True, text=True, timeout=timeout)
    except FileNotFoundError as e:
        raise Infra(f"leanchecker not found: {e}")
    except subprocess.TimeoutExpired:
        raise Infra("leanchecker timed out")
    return p.returncode == 0, (p.stdout + p.stderr)[-1500:]


def lean_run_file(text, timeout=600):
    with tempfile.NamedTemporaryFile("w", suffix=".lean", dir=LEAN, delete=False) as f:
        f.write(text)
        path = f.name
    try:
        p = subprocess.run(["lake", "env", "lean", path], cwd=LEAN, capture_output=True, text=True, timeout=timeout)
        return p.returncode, p.stdout + p.stderr
    finally:
        os.unlink(path)


def audit_module(mod):
    """returns list of (theorem, [axioms]) for theorems declared in module `mod` (namespace = module name)"""
    rc, out = lean_run_file(f"import FlexModel.Audit\nimport {mod}\n#audit_module {mod}\n")
    res = []
    for line in out.split("\n"):
        if line.startswith("AUDIT "):
            parts = line.split()
            name = parts[1]
            if not name.startswith(mod + "."):
                continue
            short = name[len(mod) + 1:]
            if "." in short or short.startswith("_"):
                continue  # auto-generated equation lemmas etc.
            res.append((name, parts[2:]))
    if rc != 0 and not res:
        raise Infra("audit failed: " + out[-2000:])
    return sorted(res)


def run_driver(domain, lines, timeout=3000):
    """feed `lines` to the Lean model driver of `domain`; returns the output lines"""
    if not lines:
        return []
    data = "\n".join(lines) + "\n"
    p = subprocess.run(["lake", "env", "lean", "--run", f"Driver/{domain}.lean"], cwd=LEAN, input=data,
                       capture_output=True, text=True, timeout=timeout)
    if p.returncode != 0:
        raise Infra(f"driver {domain} failed: {p.stderr[-2000:]}")
    out = p.stdout.split("\n")
    if out and out[-1] == "":
        out.pop()
    if len(out) != len(lines):
        raise Infra(f"driver {domain}: {len(lines)} lines in, {len(out)} lines out; stderr={p.stderr[-500:]}")
    return out


def load_known_findings(prop):
    """known_findings.json plus known_findings.d/*.json (committed; never written at run time)"""
    paths = [os.path.join(VERIF, "known_findings.json")]
    d = os.path.join(VERIF, "known_findings.d")
    if os.path.isdir(d):
        paths += [os.path.join(d, f) for f in sorted(os.listdir(d)) if f.endswith(".json")]
    out = []
    for path in paths:
        if os.path.exists(path):
            out += [e for e in json.load(open(path)) if e.get("property") == prop]
    return out


def canon(obj):
    return json.dumps(obj, sort_keys=True, default=str)


class Ctx:
    def __init__(self, prop, tier, seed):
        self.prop, self.tier, self.seed = prop, tier, seed
        self.rng = random.Random(seed * 1000003 + int(prop[1:]))
        self.t0 = time.time()
        self.counts = collections.Counter()
        self.samples = []
        self._sample_kinds = collections.Counter()
        self._nontrivial = set()
        self.evaluations = 0
        self.violations = []      # Spec violated by the REAL code (each: dict with what/replay/finding)
        self.mismatches = []      # model output != real output
        self.notes = []
        self.model_ok = True
        self.exhaustive = False
        self.extra = {}
        self.assumptions = []
        self.known = load_known_findings(prop)
        self.known_seen = collections.OrderedDict()

    thorough = property(lambda self: self.tier == "thorough")

    def scale(self, quick, thorough):
        return thorough if self.thorough else quick

    def model(self, domain, lines):
        if not self.model_ok:
            raise Infra("model driver unavailable")
        return run_driver(domain, lines)

    def cover(self, key, n=1):
        self.counts[key] += n

    def evals(self, n=1):
        self.evaluations += n

    def nontrivial(self, obj):
        self._nontrivial.add(hashlib.blake2b(canon(obj).encode(), digest_size=8).digest())

    def sample(self, kind, obj, per_kind=2):
        if self._sample_kinds[kind] < per_kind:
            self._sample_kinds[kind] += 1
            self.samples.append({"kind": kind, "case": obj})

    def note(self, s):
        self.notes.append(s)

    def violation(self, what, replay, finding=None):
        """the REAL code violates the property on `replay`.  `finding` = id of a known-finding it falls under."""
        entry = next((k for k in self.known if k["id"] == finding and k.get("status") == "known"), None) if finding else None
        if entry is not None:
            if finding not in self.known_seen:
                self.known_seen[finding] = {"what": what, "replay": replay, "count": 0}
            self.known_seen[finding]["count"] += 1
            return
        if len(self.violations) < 50:
            self.violations.append({"what": what, "replay": replay, "finding": finding})
        self.counts["violations_total"] += 1

    def mismatch(self, stream, inp, real, model):
        if len(self.mismatches) < 50:
            self.mismatches.append({"stream": stream, "input": inp, "real": real, "model": model})
        self.counts["mismatches_total"] += 1


def write_replay(prop, name, obj):
    os.makedirs(REPLAY_DIR, exist_ok=True)
    path = os.path.join(REPLAY_DIR, f"{prop}_{name}.json")
    with open(path, "w") as f:
        json.dump(obj, f, indent=1, sort_keys=True, default=str)
    return os.path.relpath(path, VERIF)


def corpus(prop):
    d = os.path.join(CORPUS_DIR, prop)
    out = []
    if os.path.isdir(d):
        for f in sorted(os.listdir(d)):
            if f.endswith(".json"):
                out.append((f, json.load(open(os.path.join(d, f)))))
    return out


def write_evidence(ctx, obligations, discharged, theorems, checker_cmd, trusted_extra, violations_n, build_log_tail=None):
    os.makedirs(EVIDENCE_DIR, exist_ok=True)
    cov = {
        "obligations": obligations,
        "discharged": discharged,
        "checker_cmd": checker_cmd,
        "trusted_base": TRUSTED_BASE_COMMON + list(trusted_extra),
        "theorems": theorems,
        "evaluations": ctx.evaluations,
        "distinct_nontrivial": len(ctx._nontrivial),
        "rule": ctx.extra.pop("rule", "see histogram"),
        "samples": ctx.samples[:40] or [{"kind": "none", "case": None}],
        "histogram": dict(sorted(ctx.counts.items())),
        "exhaustive": bool(ctx.exhaustive),
        "model_vs_code_mismatches": ctx.counts.get("mismatches_total", 0),
        "known_findings_reproduced": {k: v["count"] for k, v in ctx.known_seen.items()},
        "notes": ctx.notes[:50],
    }
    cov.update(ctx.extra)
    if build_log_tail:
        cov["build_log_tail"] = build_log_tail
    ev = {
        "property_id": ctx.prop,
        "tier": ctx.tier,
        "seed": ctx.seed,
        "level": "proof",
        "coverage": cov,
        "assumptions": ctx.assumptions,
        "wall_s": round(time.time() - ctx.t0, 2),
        "violations": violations_n,
    }
    path = os.path.join(EVIDENCE_DIR, f"{ctx.prop}.json")
    tmp = path + ".tmp"
    with open(tmp, "w") as f:
        json.dump(ev, f, indent=1, default=str)
    os.replace(tmp, path)
    return path

"""Generated/LdmSubs.lean (C14): facts of IF.LDM.4 subscription validation re-read from the repository on every run.

* `subscribeLadder : List (String × Nat)` - an `ast` pass over `InterfaceLDM4.validate_subscribe_data_consumer`: for
  every `if <test>: return SubscribeDataObjectsResp(…, SubscribeDataobjectsResult.<NAME>, …)` statement IN SOURCE ORDER
  the validator method called in the test (`self.is_valid_…`) and the integer value of the result code returned.
  The model's `subscribeRefusal` walks this list (first failing validator decides), so reordering the checks or
  returning another code changes the model's definition and re-opens `Props.C14.validation_codes`.
* `prioRange / notifyRange / multRange : Int × Int` - the accepted interval of `is_valid_priority`,
  `is_valid_notify_time`, `is_valid_multiplicity`, PROBED on the real methods over boundary candidates (the accepted set
  must be one interval, checked here); `Props.C14.generated_bounds` compares them with the bounds of the standard
  (`decide`).
* `ladderGuards : List (String × Bool)` - whether the test of the validator is guarded by `<field> is not None and`.
"""
from __future__ import annotations

import ast

import gen_lean
from gen_lean import write_if_changed


def _lean_str(s):
    return '"' + s.replace("\\", "\\\\").replace('"', '\\"') + '"'


def ladder_from_source():
    import inspect
    from flexstack.facilities.local_dynamic_map import if_ldm_4 as m
    from flexstack.facilities.local_dynamic_map.ldm_classes import SubscribeDataobjectsResult
    src = inspect.getsource(m.InterfaceLDM4.validate_subscribe_data_consumer)
    import textwrap
    fn = ast.parse(textwrap.dedent(src)).body[0]
    ladder, guards = [], []
    for st in fn.body:
        if not isinstance(st, ast.If):
            continue
        validators = [n.func.attr for n in ast.walk(st.test)
                      if isinstance(n, ast.Call) and isinstance(n.func, ast.Attribute) and n.func.attr.startswith("is_valid_")]
        rets = [n for n in st.body if isinstance(n, ast.Return)]
        if len(validators) != 1 or len(rets) != 1 or st.orelse:
            raise AssertionError(f"validate_subscribe_data_consumer: unexpected shape at line {st.lineno}")
        names = [n.attr for n in ast.walk(rets[0]) if isinstance(n, ast.Attribute) and isinstance(n.value, ast.Name)
                 and n.value.id == "SubscribeDataobjectsResult"]
        if len(names) != 1:
            raise AssertionError(f"validate_subscribe_data_consumer: no single result code at line {st.lineno}")
        guarded = isinstance(st.test, ast.BoolOp) and isinstance(st.test.op, ast.And) and any(
            isinstance(v, ast.Compare) and any(isinstance(o, ast.IsNot) for o in v.ops) for v in st.test.values)
        ladder.append((validators[0], int(SubscribeDataobjectsResult[names[0]].value)))
        guards.append((validators[0], guarded))
    last = fn.body[-1]
    if not (isinstance(last, ast.Return) and isinstance(last.value, ast.Constant) and last.value.value is None):
        raise AssertionError("validate_subscribe_data_consumer does not end with `return None`")
    return ladder, guards


def probe_interval(pred, name):
    """the accepted set of `pred` over the candidates must be one interval [lo, hi] whose ends are interior candidates"""
    cands = sorted({c + d for c in (0, 255, 256, 65535, 2 ** 31, 2 ** 32, 2 ** 42, 2 ** 42 - 1, 2 ** 63) for d in (-2, -1, 0, 1, 2)}
                   | {-(2 ** 40), 2 ** 70})
    acc = [c for c in cands if pred(c)]
    if not acc:
        raise AssertionError(f"{name}: nothing accepted")
    lo, hi = min(acc), max(acc)
    if acc != [c for c in cands if lo <= c <= hi] or lo == cands[0] or hi == cands[-1]:
        raise AssertionError(f"{name}: accepted set is not one bounded interval: {acc[:6]}…")
    return lo, hi


@gen_lean.register(props=["C12", "C13", "C14"])   # Subs.lean (imported by the shared Ldm driver) needs it
def gen_ldm_subs():
    from flexstack.facilities.local_dynamic_map import if_ldm_4 as m
    from flexstack.facilities.local_dynamic_map import ldm_classes as k
    ladder, guards = ladder_from_source()
    i4 = m.InterfaceLDM4.__new__(m.InterfaceLDM4)          # the range validators use no instance state
    prio = probe_interval(lambda v: bool(i4.is_valid_priority(v)), "is_valid_priority")
    notify = probe_interval(lambda v: bool(i4.is_valid_notify_time(k.TimestampIts(v))), "is_valid_notify_time")
    mult = probe_interval(lambda v: bool(i4.is_valid_multiplicity(v)), "is_valid_multiplicity")
    none_ok = [bool(i4.is_valid_priority(None)), bool(i4.is_valid_notify_time(None)), bool(i4.is_valid_multiplicity(None))]
    body = "namespace Generated.LdmSubs\n"
    body += "def subscribeLadder : List (String × Nat) := [" + ", ".join(f"({_lean_str(v)}, {c})" for v, c in ladder) + "]\n"
    body += "def ladderGuards : List (String × Bool) := [" + ", ".join(
        f"({_lean_str(v)}, {'true' if g else 'false'})" for v, g in guards) + "]\n"
    body += f"def prioRange : Int × Int := ({prio[0]}, {prio[1]})\n"
    body += f"def notifyRange : Int × Int := ({notify[0]}, {notify[1]})\n"
    body += f"def multRange : Int × Int := ({mult[0]}, {mult[1]})\n"
    body += "def noneAccepted : List Bool := [" + ", ".join("true" if b else "false" for b in none_ok) + "]\n"
    body += "end Generated.LdmSubs\n"
    write_if_changed("LdmSubs.lean", body)

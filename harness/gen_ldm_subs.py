"""Generated/LdmSubs.lean (C14): facts of IF.LDM.4 subscription validation re-read from the repository on every run.

* `subscribeLadder : List (String × Nat)` - an `ast` pass over `InterfaceLDM4.validate_subscribe_data_consumer`: for
  every `if <test>: return SubscribeDataObjectsResp(…, SubscribeDataobjectsResult.<NAME>, …)` statement IN SOURCE ORDER
  the validator method called in the test (`self.is_valid_…`) and the integer value of the result code returned.
  The model's `subscribeRefusal` walks this list (first failing validator decides), so reordering the checks or
  returning another code changes the model's definition and re-opens `Props.C14.validation_codes`.
* `prioRange / notifyRange / multRange : Int × Int` - the accepted interval of `is_valid_priority`,
  `is_valid_notify_time`, `is_valid_multiplicity`, PROBED on the real methods over boundary candidates (the accepted set
  must be one interval, checked here); `Props.C14.generated_bounds` compares them with the bounds of the standard
  (`decide`).
* `ladderGuards : List (String × Bool)` - whether the test of the validator is guarded by `<field> is not None and`.
"""
from __future__ import annotations

import ast

import gen_lean
from gen_lean import write_if_changed


def _lean_str(s):
    return '"' + s.replace("\\", "\\\\").replace('"', '\\"') + '"'


def ladder_from_source():
    import inspect
    from flexstack.facilities.local_dynamic_map import if_ldm_4 as m
    from flexstack.facilities.local_dynamic_map.ldm_classes import SubscribeDataobjectsResult
    src = inspect.getsource(m.InterfaceLDM4.validate_subscribe_data_consumer)
    import textwrap
    fn = ast.parse(textwrap.dedent(src)).body[0]
    ladder, guards = [], []
    for st in fn.body:
        if not isinstance(st, ast.If):
            continue
        validators = [n.func.attr for n in ast.walk(st.test)
                      if isinstance(n, ast.Call) and isinstance(n.func, ast.Attribute) and n.func.attr.startswith("is_valid_")]
        rets = [n for n in st.body if isinstance(n, ast.Return)]
        if len(validators) != 1 or len(rets) != 1 or st.orelse:
            raise AssertionError(f"validate_subscribe_data_consumer: unexpected shape at line {st.lineno}")
        names = [n.attr for n in ast.walk(rets[0]) if isinstance(n, ast.Attribute) and isinstance(n.value, ast.Name)
                 and n.value.id == "SubscribeDataobjectsResult"]
        if len(names) != 1:
            raise AssertionError(f"validate_subscribe_data_consumer: no single result code at line {st.lineno}")
        guarded = isinstance(st.test, ast.BoolOp) and isinstance(st.test.op, ast.And) and any(
            isinstance(v, ast.Compare) and any(isinstance(o, ast.IsNot) for o in v.ops) for v in st.test.values)
        ladder.append((validators[0], int(SubscribeDataobjectsResult[names[0]].value)))
        guards.append((validators[0], guarded))
    last = fn.body[-1]
    if not (isinstance(last, ast.Return) and isinstance(last.value, ast.Constant) and last.value.value is None):
        raise AssertionError("validate_subscribe_data_consumer does not end with `return None`")
    return ladder, guards


def probe_interval(pred, name):
    """the accepted set of `pred` over the candidates must be one interval [lo, hi] whose ends are interior candidates"""
    cands = sorted({c + d for c in (0, 255, 256, 65535, 2 ** 31, 2 ** 32, 2 ** 42, 2 ** 42 - 1, 2 ** 63) for d in (-2, -1, 0, 1, 2)}
                   | {-(2 ** 40), 2 ** 70})
    acc = [c for c in cands if pred(c)]
    if not acc:
        raise AssertionError(f"{name}: nothing accepted")
    lo, hi = min(acc), max(acc)
    if acc != [c for c in cands if lo <= c <= hi] or lo == cands[0] or hi == cands[-1]:
        raise AssertionError(f"{name}: accepted set is not one bounded interval: {acc[:6]}…")
    return lo, hi


@gen_lean.register(props=["C12", "C13", "C14"])   # Subs.lean (imported by the shared Ldm driver) needs it
def gen_ldm_subs():
    from flexstack.facilities.local_dynamic_map import if_ldm_4 as m
    from flexstack.facilities.local_dynamic_map import ldm_classes as k
    ladder, guards = ladder_from_source()
    i4 = m.InterfaceLDM4.__new__(m.InterfaceLDM4)          # the range validators use no instance state
    prio = probe_interval(lambda v: bool(i4.is_valid_priority(v)), "is_valid_priority")
    notify = probe_interval(lambda v: bool(i4.is_valid_notify_time(k.TimestampIts(v))), "is_valid_notify_time")
    mult = probe_interval(lambda v: bool(i4.is_valid_multiplicity(v)), "is_valid_multiplicity")
    none_ok = [bool(i4.is_valid_priority(None)), bool(i4.is_valid_notify_time(None)), bool(i4.is_valid_multiplicity(None))]
    body = "namespace Generated.LdmSubs\n"
    body += "def subscribeLadder : List (String × Nat) := [" + ", ".join(f"({_lean_str(v)}, {c})" for v, c in ladder) + "]\n"
    body += "def ladderGuards : List (String × Bool) := [" + ", ".join(
        f"({_lean_str(v)}, {'true' if g else 'false'})" for v, g in guards) + "]\n"
    body += f"def prioRange : Int × Int := ({prio[0]}, {prio[1]})\n"
    body += f"def notifyRange : Int × Int := ({notify[0]}, {notify[1]})\n"
    body += f"def multRange : Int × Int := ({mult[0]}, {mult[1]})\n"
    body += "def noneAccepted : List Bool := [" + ", ".join("true" if b else "false" for b in none_ok) + "]\n"
    body += "end Generated.LdmSubs\n"
    write_if_changed("LdmSubs.lean", body)


# ---------------------------------------------------------------------------------------------------------------------
# Generated/LdmSections.lean (C13, C14): lock-section facts of the in-memory back-end and of the notification path
# (round 4).  Pure `ast` passes over the source text - nothing is imported or executed.
#
# * `dbUnits : List (String × List (List String))` - for every method of DictionaryDataBase that touches the store
#   (`self.database`, `self._next_id`, directly or by calling another method of the class): its UNITS in source order.
#   A unit is one outermost `with self._lock:` section (its accesses, e.g. ["R database", "W database"], a call of an own
#   method is "call <m>"), or - should it exist - one access made outside every section (["unlocked", "R database"]).
#   A method that is ONE atomic step on the store has exactly one unit and no "unlocked" token;
#   `FlexModel.Ldm.QueryConc` compiles every operation to as many atomic blocks as its method has units.
#   Renaming locals, reordering statements inside the section, early returns inside the section do not change the fact;
#   splitting a section, or moving an access out of it, does.
# * `attendSteps`, `notifySteps : List String` - the statements of LDMService.attend_subscription and
#   LDMService.process_notifications in source order, classified: "search" (self.search_data), "return?" (a plain early
#   return), "order" (self.order_search_results), "lock" … "unlock" (a `with self._lock:` section), "stored?" (the test
#   `subscription not in self.subscriptions` followed by return), "notify" (self.process_notifications), "last" (reading
#   the last-checked record), "arm" (creating a missing record), "interval?" (the interval test with return), "mark"
#   (storing the notification time), "callback" (invoking the consumer's callback); statements that only bind locals
#   leave no trace; anything else is "other".  `FlexModel.Ldm.SubsRace.guardsOf` reads the positions of "stored?" from them.

# * `orderKeyShared : List String` (C13, round 6) - see `order_key_shared`: variables of LDMService.order_search_results
#   (and `self`) that the nested key functions touch; Props.C13 `order_key_is_per_object` demands [].

def _self_attr_name(node):
    return node.attr if (isinstance(node, ast.Attribute) and isinstance(node.value, ast.Name) and node.value.id == "self") else None


def _class_methods(rel, cname):
    tree = ast.parse(gen_lean.src(rel))
    for n in tree.body:
        if isinstance(n, ast.ClassDef) and n.name == cname:
            return {m.name: m for m in n.body if isinstance(m, (ast.FunctionDef, ast.AsyncFunctionDef))}
    raise AssertionError(f"class {cname} not found in {rel}")


DB_ATTRS = ("database", "_next_id")
DB_MUTATORS = {"pop", "popitem", "clear", "update", "setdefault", "append", "remove", "insert", "extend", "__setitem__",
               "__delitem__"}


class _DbAccesses(ast.NodeVisitor):
    """accesses of self.database / self._next_id and calls of own methods, with the enclosing-lock flag"""

    def __init__(self, own_touching):
        self.own, self.units, self.cur = own_touching, [], None

    def _emit(self, tok):
        if self.cur is not None:
            if tok not in self.cur:
                self.cur.append(tok)
        else:
            self.units.append(["unlocked", tok])

    def visit_With(self, node):
        is_lock = any(_self_attr_name(it.context_expr) == "_lock" for it in node.items)
        if is_lock and self.cur is None:
            self.cur = []
            for st in node.body:
                self.visit(st)
            self.units.append(self.cur)
            self.cur = None
        else:
            for it in node.items:
                self.visit(it.context_expr)
            for st in node.body:
                self.visit(st)

    def _target(self, t):
        # a store into / deletion from / rebinding of the attribute
        base = t
        while isinstance(base, ast.Subscript):
            base = base.value
        a = _self_attr_name(base)
        if a in DB_ATTRS:
            self._emit(f"W {a}")
            if isinstance(t, ast.Subscript):
                self.visit(t.slice)
            return True
        return False

    def visit_Assign(self, node):
        self.visit(node.value)
        for t in node.targets:
            if not self._target(t):
                self.visit(t)

    def visit_AugAssign(self, node):
        self.visit(node.value)
        base = node.target
        while isinstance(base, ast.Subscript):
            base = base.value
        a = _self_attr_name(base)
        if a in DB_ATTRS:
            self._emit(f"R {a}")
            self._emit(f"W {a}")
        else:
            self.visit(node.target)

    def visit_Delete(self, node):
        for t in node.targets:
            if not self._target(t):
                self.visit(t)

    def visit_Call(self, node):
        f = node.func
        if isinstance(f, ast.Attribute):
            a = _self_attr_name(f.value)
            if a in DB_ATTRS:                              # self.database.<method>(…)
                self._emit(f"{'W' if f.attr in DB_MUTATORS else 'R'} {a}")
                for x in list(node.args) + [k.value for k in node.keywords]:
                    self.visit(x)
                return
            m = _self_attr_name(f)
            if m is not None and m in self.own:            # self.<own method touching the store>(…)
                self._emit(f"call {m}")
                for x in list(node.args) + [k.value for k in node.keywords]:
                    self.visit(x)
                return
        self.generic_visit(node)

    def visit_Attribute(self, node):
        a = _self_attr_name(node)
        if a in DB_ATTRS:
            self._emit(f"R {a}")
        else:
            self.generic_visit(node)


def db_units(rel="facilities/local_dynamic_map/dictionary_database.py", cname="DictionaryDataBase"):
    """units of every store-touching method of the back-end class `cname` (see the comment above); round 5: also used
    for the TinyDB class (`tinyUnits`: `self.database` is the tinydb handle, whose JSON storage shares ONE file handle
    between reads and writes - a read that is not in the lock section of the class may see a half-written file)"""
    methods = _class_methods(rel, cname)
    # methods that touch the store directly, then those calling them (fixed point)
    touching = set()
    for name, m in methods.items():
        if any(_self_attr_name(n) in DB_ATTRS for n in ast.walk(m)):
            touching.add(name)
    changed = True
    while changed:
        changed = False
        for name, m in methods.items():
            if name not in touching and any(isinstance(n, ast.Call) and _self_attr_name(n.func) in touching for n in ast.walk(m)):
                touching.add(name)
                changed = True
    out = []
    for name in sorted(touching):
        if name == "__init__":
            continue
        v = _DbAccesses(touching)
        for st in methods[name].body:
            v.visit(st)
        out.append((name, v.units))
    return out


def _is_stored_test(st):
    """`if subscription not in self.subscriptions: return`"""
    if not (isinstance(st, ast.If) and not st.orelse and len(st.body) == 1 and isinstance(st.body[0], ast.Return)):
        return False
    t = st.test
    return (isinstance(t, ast.Compare) and len(t.ops) == 1 and isinstance(t.ops[0], ast.NotIn)
            and _self_attr_name(t.comparators[0]) == "subscriptions")


def _calls(node, name):
    return any(isinstance(n, ast.Call) and _self_attr_name(n.func) == name for n in ast.walk(node))


def _mentions(node, attr):
    return any(_self_attr_name(n) == attr for n in ast.walk(node))


def _classify(st, out):
    if isinstance(st, ast.Expr) and isinstance(st.value, ast.Constant):
        return                                                       # docstring
    if isinstance(st, ast.With) and any(_self_attr_name(it.context_expr) == "_lock" for it in st.items):
        out.append("lock")
        for x in st.body:
            _classify(x, out)
        out.append("unlock")
        return
    if _is_stored_test(st):
        out.append("stored?")
        return
    if any(isinstance(n, ast.Call) and isinstance(n.func, ast.Attribute) and n.func.attr == "callback" for n in ast.walk(st)):
        out.append("callback")
        return
    if _calls(st, "process_notifications"):
        out.append("notify")
        return
    if _calls(st, "search_data"):
        out.append("search")
        return
    if _calls(st, "order_search_results"):
        out.append("order")
        return
    if _mentions(st, "last_checked_subscriptions_time"):
        if isinstance(st, ast.Assign) and any(_mentions(t, "last_checked_subscriptions_time") for t in st.targets):
            out.append("mark")
        elif isinstance(st, ast.If):
            out.append("arm")
        else:
            out.append("last")
        return
    if _mentions(st, "subscriptions"):
        out.append("other")
        return
    if isinstance(st, ast.If) and not st.orelse and all(isinstance(x, ast.Return) for x in st.body):
        names = {n.id for n in ast.walk(st.test) if isinstance(n, ast.Name)}
        out.append("interval?" if ("notify_time" in names or "last_checked" in names) else "return?")
        return
    if isinstance(st, (ast.Assign, ast.AnnAssign)) and not any(
            isinstance(n, ast.Call) and _self_attr_name(n.func) is not None for n in ast.walk(st)):
        return                                                       # binds a local
    out.append("other")


def notification_steps():
    methods = _class_methods("facilities/local_dynamic_map/ldm_service.py", "LDMService")
    res = []
    for name in ("attend_subscription", "process_notifications"):
        if name not in methods:
            raise AssertionError(f"LDMService.{name} not found")
        out = []
        for st in methods[name].body:
            _classify(st, out)
        res.append(out)
    return res


def order_key_shared():
    """C13 round 6: LDMService.order_search_results computes the sort key of each object by functions / lambdas nested in
    it.  The fact = the sorted names of VARIABLES of the enclosing method (names it assigns: plain / annotated / augmented
    assignment, for / with targets, walrus; not its parameters, not nested defs) that a nested function or lambda reads
    or writes, plus "self" when one mentions `self`: state that outlives the key computation of ONE object (a cache of the
    path located in the first object, a counter, ...).  [] = every object's key is computed from the object and the order
    tuple alone.  Renaming, inlining build_key into the lambda, other helper functions do not change the fact."""
    m = _class_methods("facilities/local_dynamic_map/ldm_service.py", "LDMService").get("order_search_results")
    if m is None:
        raise AssertionError("LDMService.order_search_results not found")
    nested = [n for n in ast.walk(m) if n is not m and isinstance(n, (ast.FunctionDef, ast.AsyncFunctionDef, ast.Lambda))]
    inner = set()
    for f in nested:
        for n in ast.walk(f):
            inner.add(id(n))
    assigned = set()
    for n in ast.walk(m):
        if id(n) in inner:
            continue
        if isinstance(n, ast.Name) and isinstance(n.ctx, (ast.Store, ast.Del)):
            assigned.add(n.id)
    used = set()
    for f in nested:
        params = {a.arg for a in (f.args.posonlyargs + f.args.args + f.args.kwonlyargs)}
        for extra in (f.args.vararg, f.args.kwarg):
            if extra is not None:
                params.add(extra.arg)
        body = f.body if isinstance(f.body, list) else [f.body]
        local = {n.id for st in body for n in ast.walk(st) if isinstance(n, ast.Name) and isinstance(n.ctx, ast.Store)}
        nonlocal_ = {x for st in body for n in ast.walk(st) if isinstance(n, (ast.Nonlocal, ast.Global)) for x in n.names}
        for st in body:
            for n in ast.walk(st):
                if isinstance(n, ast.Name):
                    if n.id == "self":
                        used.add("self")
                    elif n.id in assigned and (n.id in nonlocal_ or (n.id not in params and n.id not in local)):
                        used.add(n.id)
    return sorted(used)


def _strs(xs):
    return "[" + ", ".join(_lean_str(x) for x in xs) + "]"


@gen_lean.register(props=["C13", "C14"])
def gen_ldm_sections():
    units = db_units()
    tiny = db_units("facilities/local_dynamic_map/tinydb_database.py", "TinyDB")
    attend, notify = notification_steps()
    body = "namespace Generated.LdmSections\n"
    body += "def dbUnits : List (String × List (List String)) := [" + ", ".join(
        f"({_lean_str(m)}, [" + ", ".join(_strs(u) for u in us) + "])" for m, us in units) + "]\n"
    body += "def tinyUnits : List (String × List (List String)) := [" + ", ".join(
        f"({_lean_str(m)}, [" + ", ".join(_strs(u) for u in us) + "])" for m, us in tiny) + "]\n"
    body += f"def attendSteps : List String := {_strs(attend)}\n"
    body += f"def notifySteps : List String := {_strs(notify)}\n"
    body += f"def orderKeyShared : List String := {_strs(order_key_shared())}\n"
    body += "end Generated.LdmSections\n"
    write_if_changed("LdmSections.lean", body)


if __name__ == "__main__":
    for m, us in db_units():
        print(m, us)
    for m, us in db_units("facilities/local_dynamic_map/tinydb_database.py", "TinyDB"):
        print("tiny", m, us)
    a, n = notification_steps()
    print("attend", a)
    print("notify", n)
    print("orderKeyShared", order_key_shared())

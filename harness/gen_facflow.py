"""Structural facts about the control flow of the CAM / VAM transmission management, regenerated from the source by
an `ast` pass for C10 (Generated/FacFlow.lean).  The models and theorems of Props/C10 depend on them (`decide`):

* the T_CheckCamGen expiry callback returns at once when the service is not active (`CAM_CHECK_GUARDED` is the guard of
  `Cam.check` in the model), re-arms the timer in a `finally`, `_schedule_next_check` refuses while inactive and
  `stop()` clears `_active` and cancels the timer;
* `_generate_and_send_cam` writes no management state itself and calls `_update_send_state` only after the Annex B.2.5
  `try` around `_send_cam`, whose handlers return (bookkeeping strictly after a successful transmission);
* in `_send_cam` the LDM feed cannot abort the bookkeeping (own try/except)            -> variant flag `ldmIsolated`;
* `start()` records the restart hold and `_evaluate_and_maybe_send` honours it           -> variant flag `restartHold`;
* the hold is stored only by `start()`, only when a CAM went out in the activation that just ended, never as None
  (a second quick restart without a CAM in between cannot clear it)                      -> variant flag `holdSticky`;
* every store to `t_gen_cam` is T_GEN_CAM_MAX or a two-sided clamp to [T_GEN_CAM_MIN, T_GEN_CAM_MAX] (`Cam.clampT`; the
  invariant behind the upper bound of the CAM interval);
* the VAM callback never compares generationDeltaTime values directly (only `-`, which is wrap-aware);
* the VAM low-frequency timer is written after the BTP request, not when the container is attached -> `lfAfterSend`.
"""
from __future__ import annotations

import ast

import gen_lean
from gen_lean import write_if_changed, src

CAM_TM = "facilities/ca_basic_service/cam_transmission_management.py"
VAM_TM = "facilities/vru_awareness_service/vam_transmission_management.py"


def _func(tree, cls, name):
    for node in ast.walk(tree):
        if isinstance(node, ast.ClassDef) and node.name == cls:
            for f in node.body:
                if isinstance(f, ast.FunctionDef) and f.name == name:
                    return f
    raise ValueError(f"{cls}.{name} not found")


def _body(fn):
    """statements of fn without the docstring"""
    b = list(fn.body)
    if b and isinstance(b[0], ast.Expr) and isinstance(b[0].value, ast.Constant) and isinstance(b[0].value.value, str):
        b = b[1:]
    return b


def _is_self_attr(node, name=None):
    return (isinstance(node, ast.Attribute) and isinstance(node.value, ast.Name) and node.value.id == "self"
            and (name is None or node.attr == name))


def _tests_inactive(test):
    """`not self._active`, `self._active is False`, `self._active == False`"""
    if isinstance(test, ast.UnaryOp) and isinstance(test.op, ast.Not):
        return _is_self_attr(test.operand, "_active")
    return (isinstance(test, ast.Compare) and _is_self_attr(test.left, "_active") and len(test.ops) == 1
            and isinstance(test.ops[0], (ast.Is, ast.Eq)) and isinstance(test.comparators[0], ast.Constant)
            and test.comparators[0].value is False)


def _is_inactive_return(stmt):
    """`if not self._active: return` (also `return None`)"""
    if not (isinstance(stmt, ast.If) and _tests_inactive(stmt.test) and len(stmt.body) == 1 and not stmt.orelse):
        return False
    r = stmt.body[0]
    return isinstance(r, ast.Return) and (r.value is None or (isinstance(r.value, ast.Constant) and r.value.value is None))


def _calls(node, method):
    """calls `<anything>.method(...)` below node"""
    return [n for n in ast.walk(node) if isinstance(n, ast.Call) and isinstance(n.func, ast.Attribute) and n.func.attr == method]


def _self_writes(node):
    out = set()
    for n in ast.walk(node):
        targets = []
        if isinstance(n, ast.Assign):
            targets = n.targets
        elif isinstance(n, (ast.AugAssign, ast.AnnAssign)):
            targets = [n.target]
        for t in targets:
            for x in ast.walk(t):
                if _is_self_attr(x) and isinstance(x.ctx, ast.Store):
                    out.add(x.attr)
    return sorted(out)


def _handler_swallows(h):
    """an `except` clause that catches Exception (or everything) and neither re-raises nor raises"""
    broad = h.type is None or (isinstance(h.type, ast.Name) and h.type.id in ("Exception", "BaseException"))
    return broad and not any(isinstance(n, ast.Raise) for n in ast.walk(h))


def _mentions_gdt(node):
    for n in ast.walk(node):
        if isinstance(n, ast.Name) and "generation_delta_time" in n.id:
            return True
        if isinstance(n, ast.Attribute) and "generation_delta_time" in n.attr:
            return True
    return False


HOLD = "_restart_hold_until_ms"


def _establishes_last_cam(test, aliases=()):
    """the test guarantees `self._last_cam_time_ms is not None` when it is true (alone or as a conjunct of `and`);
    `aliases`: local names bound to `self._last_cam_time_ms` by a plain assignment in the same function"""
    if isinstance(test, ast.BoolOp) and isinstance(test.op, ast.And):
        return any(_establishes_last_cam(v, aliases) for v in test.values)
    return (isinstance(test, ast.Compare) and len(test.ops) == 1 and isinstance(test.ops[0], ast.IsNot)
            and (_is_self_attr(test.left, "_last_cam_time_ms") or (isinstance(test.left, ast.Name) and test.left.id in aliases))
            and isinstance(test.comparators[0], ast.Constant) and test.comparators[0].value is None)


def _last_cam_aliases(fn):
    return tuple(t.id for n in ast.walk(fn) if isinstance(n, ast.Assign) and _is_self_attr(n.value, "_last_cam_time_ms")
                 for t in n.targets if isinstance(t, ast.Name))


def _hold_writes(stmts, guarded, aliases=()):
    """[(guarded by `_last_cam_time_ms is not None`?, value expression | None)] for every store to the restart hold below"""
    out = []
    for s in stmts:
        if isinstance(s, ast.If):
            out += _hold_writes(s.body, guarded or _establishes_last_cam(s.test, aliases), aliases)
            out += _hold_writes(s.orelse, guarded, aliases)
            continue
        if isinstance(s, (ast.FunctionDef, ast.AsyncFunctionDef, ast.ClassDef)):
            out += _hold_writes(s.body, False)
            continue
        targets, value = [], None
        if isinstance(s, ast.Assign):
            targets, value = s.targets, s.value
        elif isinstance(s, (ast.AugAssign, ast.AnnAssign)):
            targets, value = [s.target], s.value
        elif isinstance(s, ast.Delete):
            targets = s.targets
        if any(_is_self_attr(x, HOLD) for t in targets for x in ast.walk(t)):
            out.append((guarded, value))
        for field in ("body", "orelse", "finalbody"):
            out += _hold_writes(getattr(s, field, []) or [], guarded, aliases)
        for h in getattr(s, "handlers", []) or []:
            out += _hold_writes(h.body, guarded, aliases)
        for c in getattr(s, "cases", []) or []:
            out += _hold_writes(c.body, guarded, aliases)
    return out


def _hold_only_raised(tree, cls):
    """Outside `__init__` the restart hold is stored only by `start()`, only under `self._last_cam_time_ms is not None`
    (a CAM went out in the activation that just ended) and never with a value that can be None: an activation without a
    CAM cannot clear or shorten a hold that is still in force (several quick restarts in a row)."""
    for node in ast.walk(tree):
        if isinstance(node, ast.ClassDef) and node.name == cls:
            for fn in node.body:
                if not isinstance(fn, ast.FunctionDef) or fn.name == "__init__":
                    continue
                for guarded, value in _hold_writes(fn.body, False, _last_cam_aliases(fn)):
                    if fn.name != "start" or not guarded or value is None:
                        return False
                    if any(isinstance(n, ast.Constant) and n.value is None for n in ast.walk(value)):
                        return False
            return True
    return False


def _is_call_with(node, fname, const):
    return (isinstance(node, ast.Call) and isinstance(node.func, ast.Name) and node.func.id == fname
            and any(isinstance(a, ast.Name) and a.id == const for a in node.args))


def _tgen_always_clamped(tree, cls):
    """every store to `self.t_gen_cam` in the class is either the constant T_GEN_CAM_MAX or a min/max nest that bounds the
    value by T_GEN_CAM_MIN from below AND by T_GEN_CAM_MAX from above (`max(MIN, min(MAX, x))` or `min(MAX, max(MIN, x))`)"""
    found = False
    for node in ast.walk(tree):
        if isinstance(node, ast.ClassDef) and node.name == cls:
            for n in ast.walk(node):
                if isinstance(n, (ast.AugAssign, ast.AnnAssign)) and _is_self_attr(n.target, "t_gen_cam"):
                    if not (isinstance(n, ast.AnnAssign) and isinstance(n.value, ast.Name) and n.value.id == "T_GEN_CAM_MAX"):
                        return False
                    found = True
                if isinstance(n, ast.Assign) and any(_is_self_attr(x, "t_gen_cam") for t in n.targets for x in ast.walk(t)):
                    found = True
                    v = n.value
                    if isinstance(v, ast.Name) and v.id == "T_GEN_CAM_MAX":
                        continue
                    outer_lo, outer_hi = _is_call_with(v, "max", "T_GEN_CAM_MIN"), _is_call_with(v, "min", "T_GEN_CAM_MAX")
                    if outer_lo and any(_is_call_with(a, "min", "T_GEN_CAM_MAX") for a in v.args):
                        continue
                    if outer_hi and any(_is_call_with(a, "max", "T_GEN_CAM_MIN") for a in v.args):
                        continue
                    return False
    return found


def facts():
    cam = ast.parse(src(CAM_TM))
    vam = ast.parse(src(VAM_TM))
    cls = "CAMTransmissionManagement"
    f = {}

    chk = _body(_func(cam, cls, "_check_cam_conditions"))
    f["CAM_CHECK_GUARDED"] = bool(chk) and _is_inactive_return(chk[0])
    f["CAM_CHECK_REARMS_IN_FINALLY"] = any(
        isinstance(s, ast.Try) and any(_calls(x, "_evaluate_and_maybe_send") for x in s.body)
        and any(_calls(x, "_schedule_next_check") for x in s.finalbody) for s in chk)
    sch = _body(_func(cam, cls, "_schedule_next_check"))
    f["CAM_SCHEDULE_GUARDED"] = bool(sch) and _is_inactive_return(sch[0])
    stop = _func(cam, cls, "stop")
    clears = any(isinstance(n, ast.Assign) and any(_is_self_attr(t, "_active") for t in n.targets)
                 and isinstance(n.value, ast.Constant) and n.value.value is False for n in ast.walk(stop))
    f["CAM_STOP_CANCELS_TIMER"] = clears and any(_is_self_attr(c.func.value, "_timer") for c in _calls(stop, "cancel"))

    gen = _func(cam, cls, "_generate_and_send_cam")
    f["CAM_GENERATE_STATE_WRITES"] = _self_writes(gen)
    body = _body(gen)
    send_try = [i for i, s in enumerate(body) if isinstance(s, ast.Try) and any(_calls(x, "_send_cam") for x in s.body)]
    upd_top = [i for i, s in enumerate(body) if not isinstance(s, ast.Try) and _calls(s, "_update_send_state")]
    upd_all = _calls(gen, "_update_send_state")
    ok = len(send_try) == 1 and len(upd_top) == 1 and len(upd_all) == 1 and upd_top[0] > send_try[0]
    if ok:
        t = body[send_try[0]]
        ok = bool(t.handlers) and all(h.body and isinstance(h.body[-1], ast.Return) for h in t.handlers) \
            and not t.orelse and not t.finalbody
        # nothing but the `try` may call `_send_cam`
        ok = ok and len(_calls(gen, "_send_cam")) == 1
    f["CAM_UPDATE_AFTER_SEND_TRY"] = ok

    snd = _func(cam, cls, "_send_cam")
    feeds = _calls(snd, "add_provider_data_to_ldm")
    guarded = []
    for t in (n for n in ast.walk(snd) if isinstance(n, ast.Try)):
        if t.handlers and all(_handler_swallows(h) for h in t.handlers):
            for x in t.body:
                guarded += _calls(x, "add_provider_data_to_ldm")
    btp = _calls(snd, "btp_data_request")
    f["CAM_LDM_ISOLATED"] = bool(feeds) and all(c in guarded for c in feeds) and \
        all(not any(b in ast.walk(t) for b in btp) for t in ast.walk(snd) if isinstance(t, ast.Try))

    start = _func(cam, cls, "start")
    ev = _func(cam, cls, "_evaluate_and_maybe_send")
    hold_written = "_restart_hold_until_ms" in _self_writes(start)
    hold_read = any(isinstance(n, ast.Compare) and any(_is_self_attr(x, "_restart_hold_until_ms") for x in ast.walk(n))
                    and any(isinstance(o, (ast.Lt, ast.LtE, ast.Gt, ast.GtE)) for o in n.ops) for n in ast.walk(ev))
    f["CAM_RESTART_HOLD"] = hold_written and hold_read
    f["CAM_RESTART_HOLD_STICKY"] = hold_written and _hold_only_raised(cam, cls)
    f["CAM_TGEN_ALWAYS_CLAMPED"] = _tgen_always_clamped(cam, cls)

    vcls = "VAMTransmissionManagement"
    cb = _func(vam, vcls, "location_service_callback")
    f["VAM_GDT_RAW_COMPARISONS"] = sum(
        1 for n in ast.walk(cb) if isinstance(n, ast.Compare) and _mentions_gdt(n)
        and not all(isinstance(o, (ast.Is, ast.IsNot)) for o in n.ops))
    snv = _func(vam, vcls, "send_next_vam")
    att = _func(vam, vcls, "_attach_lf_container_if_due")
    req = _calls(snv, "btp_data_request")
    lf_writes = [n.lineno for n in ast.walk(snv) if isinstance(n, ast.Assign)
                 and any(_is_self_attr(t, "last_lf_vam_time") for t in n.targets)]
    f["VAM_LF_TIME_AFTER_SEND"] = ("last_lf_vam_time" not in _self_writes(att) and len(req) == 1 and bool(lf_writes)
                                   and all(ln > req[0].lineno for ln in lf_writes))
    return f


@gen_lean.register(props=["C10"])
def gen_fac_flow():
    f = facts()
    body = "namespace Generated.FacFlow\n"
    for k, v in f.items():
        if isinstance(v, bool):
            body += f"def {k} : Bool := {'true' if v else 'false'}\n"
        elif isinstance(v, int):
            body += f"def {k} : Nat := {v}\n"
        else:
            body += f"def {k} : List String := [" + ", ".join(f"\"{x}\"" for x in v) + "]\n"
    body += "end Generated.FacFlow\n"
    write_if_changed("FacFlow.lean", body)

"""Generated/LTSrc.lean (property C20): structural facts about the basic-header constructors and the Router's source
operations, re-read from the current source on every run by an `ast` pass (nothing is imported or executed).

The model of an originated packet (`FlexModel/Geo/LT.lean`: `srcLifetime`, `srcHops`, `originate`) is a FUNCTION of the
request and the MIB: what a thread writes on the wire does not depend on what other threads (or earlier requests)
asked for, and a source operation builds ONE basic header whose hop limit is the resolved one.  Each of these is a fact
about the shape of the source:

* `sharedWrites`   - every statement inside a function of `geonet/basic_header.py` that writes state outliving the call
                     and visible to other threads: a store / augmented store / delete / subscript store / mutating
                     container call on `cls.<x>`, `<ClassOfTheModule>.<x>`, `type(self).<x>`, `self.__class__.<x>`,
                     a `global` / `nonlocal` declaration, `setattr(cls | Class, ...)`.  Model: none (the constructors
                     are pure), `Props.C20.constructors_write_no_shared_state` by `decide`.
* `headerBuilds`   - per Router method: how many basic headers it constructs (`BasicHeader(...)`,
                     `BasicHeader.initialize_*(...)`).  Model: a source operation builds its header once and changes
                     only NH afterwards (`set_nh`): `Props.C20.one_basic_header_per_operation`.
* `rawHopLimitSites` - Router methods handing a request's RAW `max_hop_limit` attribute to a basic-header constructor
                     as the remaining hop limit (0 and 1 mean "not specified": the resolved limit must be passed).
                     `Props.C20.no_raw_request_hop_limit`.

A source change that introduces such a write / a second header / a raw hop limit re-opens the proof obligation; the
check then searches for a concrete failing input (secured originations, two originating threads).
"""
from __future__ import annotations

import ast

from gen_lean import register, src, write_if_changed

MUTATORS = {"pop", "append", "add", "discard", "remove", "setdefault", "clear", "update", "popleft", "appendleft",
            "extend", "insert", "popitem", "sort", "reverse", "__setitem__", "__delitem__"}
HEADER_CLASS = "BasicHeader"


def _lean_strs(xs):
    return "[" + ", ".join('"' + x.replace('"', "'") + '"' for x in xs) + "]"


def _functions(tree):
    """(qualified name, node) of every function / method of the module, nested ones included"""
    out = []

    def walk(node, prefix):
        for n in ast.iter_child_nodes(node):
            if isinstance(n, (ast.FunctionDef, ast.AsyncFunctionDef)):
                out.append((prefix + n.name, n))
                walk(n, prefix + n.name + ".")
            elif isinstance(n, ast.ClassDef):
                walk(n, prefix + n.name + ".")
            else:
                walk(n, prefix)
    walk(tree, "")
    return out


def _shared_base(node, class_names):
    """is `node` an expression denoting a class object of the module (cls, ClassName, type(self), self.__class__)?"""
    if isinstance(node, ast.Name) and (node.id == "cls" or node.id in class_names):
        return True
    if isinstance(node, ast.Attribute) and node.attr == "__class__":
        return True
    if isinstance(node, ast.Call) and isinstance(node.func, ast.Name) and node.func.id == "type" and len(node.args) == 1:
        return True
    return False


def _shared_target(node, class_names):
    """`<class object>.x`, `<class object>.x[...]`, `<class object>.x.y` as the target of a store"""
    while isinstance(node, (ast.Subscript, ast.Attribute)):
        if isinstance(node, ast.Attribute) and _shared_base(node.value, class_names):
            return True
        node = node.value
    return False


def shared_writes(module_src):
    tree = ast.parse(module_src)
    class_names = {n.name for n in ast.walk(tree) if isinstance(n, ast.ClassDef)}
    module_names = {t.id for n in tree.body if isinstance(n, (ast.Assign, ast.AnnAssign))
                    for t in (n.targets if isinstance(n, ast.Assign) else [n.target]) if isinstance(t, ast.Name)}
    out = []
    for qual, fn in _functions(tree):
        nested = {id(x) for c in ast.iter_child_nodes(fn) for x in ast.walk(c)
                  if isinstance(c, (ast.FunctionDef, ast.AsyncFunctionDef, ast.ClassDef))}
        for n in ast.walk(fn):
            if n is fn or id(n) in nested:
                continue
            targets = []
            if isinstance(n, ast.Assign):
                targets = list(n.targets)
            elif isinstance(n, (ast.AugAssign, ast.AnnAssign)):
                targets = [n.target]
            elif isinstance(n, ast.Delete):
                targets = list(n.targets)
            elif isinstance(n, (ast.Global, ast.Nonlocal)):
                out.append(f"{qual}: {'global' if isinstance(n, ast.Global) else 'nonlocal'} {','.join(n.names)}")
            elif isinstance(n, ast.NamedExpr):
                targets = [n.target]
            elif isinstance(n, ast.Call):
                f = n.func
                if isinstance(f, ast.Name) and f.id in ("setattr", "delattr") and n.args and _shared_base(n.args[0], class_names):
                    out.append(f"{qual}: {f.id}({ast.unparse(n.args[0])}, ...)")
                elif isinstance(f, ast.Attribute) and f.attr in MUTATORS and (
                        _shared_target(f.value, class_names)
                        or (isinstance(f.value, ast.Name) and f.value.id in module_names)):
                    out.append(f"{qual}: {ast.unparse(f)}(...)")
            flat = []
            for t in targets:
                flat += list(t.elts) if isinstance(t, (ast.Tuple, ast.List)) else [t]
            for t in flat:
                if _shared_target(t, class_names):
                    out.append(f"{qual}: {ast.unparse(t)} = ...")
                elif isinstance(t, ast.Subscript) and isinstance(t.value, ast.Name) and t.value.id in module_names:
                    out.append(f"{qual}: {ast.unparse(t)} = ...")
    return sorted(set(out))


def _is_header_ctor(call):
    f = call.func
    if isinstance(f, ast.Name) and f.id == HEADER_CLASS:
        return True
    return (isinstance(f, ast.Attribute) and f.attr.startswith("initialize") and isinstance(f.value, ast.Name)
            and f.value.id == HEADER_CLASS)


def router_facts(module_src):
    tree = ast.parse(module_src)
    builds, raw = [], []
    for qual, fn in _functions(tree):
        calls = [n for n in ast.walk(fn) if isinstance(n, ast.Call) and _is_header_ctor(n)]
        if not calls:
            continue
        builds.append((qual, len(calls)))
        for c in calls:
            args = list(c.args[2:3]) + [k.value for k in c.keywords if k.arg == "rhl"]
            if isinstance(c.func, ast.Attribute) and c.func.attr == "initialize_with_mib_and_rhl":
                args = list(c.args[1:2]) + [k.value for k in c.keywords if k.arg == "rhl"]
            for a in args:
                if isinstance(a, ast.Attribute) and a.attr == "max_hop_limit":
                    raw.append(f"{qual}: {ast.unparse(a)}")
    return sorted(builds), sorted(set(raw))


@register(props=["C20"])
def gen_lt_src():
    writes = shared_writes(src("geonet/basic_header.py"))
    builds, raw = router_facts(src("geonet/router.py"))
    body = "namespace Generated.LTSrc\n"
    body += "/-- statements in functions of geonet/basic_header.py that write class- or module-level state -/\n"
    body += f"def sharedWrites : List String := {_lean_strs(writes)}\n"
    body += "/-- (Router method, number of basic headers it constructs) -/\n"
    body += "def headerBuilds : List (String × Nat) := [" + ", ".join(f'("{q}", {n})' for q, n in builds) + "]\n"
    body += "/-- Router methods passing a request's raw max_hop_limit to a basic-header constructor -/\n"
    body += f"def rawHopLimitSites : List String := {_lean_strs(raw)}\n"
    body += "end Generated.LTSrc\n"
    write_if_changed("LTSrc.lean", body)


if __name__ == "__main__":
    import sys
    repo = sys.argv[1] if len(sys.argv) > 1 else None
    import os
    base = os.path.join(repo, "src", "flexstack") if repo else None
    rd = (lambda p: open(os.path.join(base, p), encoding="utf-8").read()) if base else src
    print(shared_writes(rd("geonet/basic_header.py")))
    print(router_facts(rd("geonet/router.py")))

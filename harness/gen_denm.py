"""Structural facts about the DEN transmission management (C17) -> lean/Generated/Denm.lean.

An `ast` pass (nothing is imported or executed) over
facilities/decentralized_environmental_notification_service/denm_transmission_management.py:

* `allocLayout` - the body of `DENMTransmissionManagement.allocate_sequence_number`, statement by statement, as
  codes of `FlexModel.Fac.Denm.Conc.Tok`:
    0 acq            `with self._sequence_number_lock:` entered
    1 rel            ... left
    2 readToLocal    `<local> = self.sequence_number`
    3 incrFromAttr   `self.sequence_number = (self.sequence_number + 1) % K`
    4 incrFromLocal  `self.sequence_number = (<local> + 1) % K`      (<local> = the one assigned by code 2)
    5 other          any other statement (an unknown lock, another access, `return` of something that is not the local)
  Local names do not matter (renaming a local is not a change), `return <local>` and the docstring produce no code.
* `allocModulus` - K (both forms must use the same literal), 0 if absent / inconsistent.
* `strayCounterAccesses` - number of `self.sequence_number` accesses in the other methods of the class except
  `__init__` (an unlocked write elsewhere would defeat the section).

`Props/C17.lean` proves `allocLayout ∈ okLayouts ∧ allocModulus = 65536 ∧ strayCounterAccesses = 0` by `decide`:
moving the read or the write-back out of the `with` section re-opens that proof obligation.
"""
from __future__ import annotations

import ast

import gen_lean

FILE = "facilities/decentralized_environmental_notification_service/denm_transmission_management.py"
CLASS = "DENMTransmissionManagement"
LOCK = "_sequence_number_lock"
ATTR = "sequence_number"
ACQ, REL, READ, INCR_ATTR, INCR_LOCAL, OTHER = range(6)


def _is_self_attr(node, attr):
    return (isinstance(node, ast.Attribute) and node.attr == attr and isinstance(node.value, ast.Name)
            and node.value.id == "self")


def _incr(node):
    """`(<x> + 1) % K` -> (x node, K) else None"""
    if (isinstance(node, ast.BinOp) and isinstance(node.op, ast.Mod) and isinstance(node.right, ast.Constant)
            and isinstance(node.right.value, int) and not isinstance(node.right.value, bool)
            and isinstance(node.left, ast.BinOp) and isinstance(node.left.op, ast.Add)
            and isinstance(node.left.right, ast.Constant) and node.left.right.value == 1):
        return node.left.left, node.right.value
    return None


def _layout(stmts, st):
    out = []
    for n in stmts:
        if isinstance(n, ast.Expr) and isinstance(n.value, ast.Constant) and isinstance(n.value.value, str):
            continue                                           # docstring
        if isinstance(n, ast.With):
            if len(n.items) == 1 and n.items[0].optional_vars is None and _is_self_attr(n.items[0].context_expr, LOCK):
                out += [ACQ] + _layout(n.body, st) + [REL]
            else:
                out.append(OTHER)
            continue
        if isinstance(n, ast.Assign) and len(n.targets) == 1:
            tgt, val = n.targets[0], n.value
            if isinstance(tgt, ast.Name) and _is_self_attr(val, ATTR):
                st["local"] = tgt.id
                out.append(READ)
                continue
            inc = _incr(val)
            if _is_self_attr(tgt, ATTR) and inc is not None:
                src, k = inc
                st["moduli"].add(k)
                if _is_self_attr(src, ATTR):
                    out.append(INCR_ATTR)
                    continue
                if isinstance(src, ast.Name) and src.id == st.get("local"):
                    out.append(INCR_LOCAL)
                    continue
            out.append(OTHER)
            continue
        if isinstance(n, ast.Return) and isinstance(n.value, ast.Name) and n.value.id == st.get("local"):
            continue
        if isinstance(n, ast.Pass):
            continue
        out.append(OTHER)
    return out


def analyse():
    tree = ast.parse(gen_lean.src(FILE))
    cls = next((n for n in tree.body if isinstance(n, ast.ClassDef) and n.name == CLASS), None)
    if cls is None:
        raise ValueError(f"class {CLASS} not found in {FILE}")
    fns = {n.name: n for n in cls.body if isinstance(n, ast.FunctionDef)}
    if "allocate_sequence_number" not in fns:
        raise ValueError("DENMTransmissionManagement.allocate_sequence_number not found")
    st = {"moduli": set()}
    layout = _layout(fns["allocate_sequence_number"].body, st)
    stray = 0
    for name, fn in fns.items():
        if name in ("__init__", "allocate_sequence_number"):
            continue
        stray += sum(1 for n in ast.walk(fn) if _is_self_attr(n, ATTR))
    modulus = next(iter(st["moduli"])) if len(st["moduli"]) == 1 else 0
    return {"layout": layout, "modulus": modulus, "stray": stray}


@gen_lean.register(props=["C17"])
def gen_denm():
    info = analyse()
    body = "namespace Generated.Denm\n"
    body += ("/-- `DENMTransmissionManagement.allocate_sequence_number`, statement by statement (harness/gen_denm.py):\n"
             "    0 acq `with self._sequence_number_lock:`, 1 rel, 2 `<local> = self.sequence_number`,\n"
             "    3 `self.sequence_number = (self.sequence_number + 1) % K`, 4 `self.sequence_number = (<local> + 1) % K`,\n"
             "    5 anything else -/\n")
    body += f"def allocLayout : List Nat := {gen_lean.lean_nat_list(info['layout'])}\n"
    body += f"def allocModulus : Nat := {info['modulus']}\n"
    body += ("/-- `self.sequence_number` accesses of the transmission management outside `__init__` and\n"
             "    `allocate_sequence_number` -/\n")
    body += f"def strayCounterAccesses : Nat := {info['stray']}\n"
    body += "end Generated.Denm\n"
    gen_lean.write_if_changed("Denm.lean", body)


if __name__ == "__main__":
    print(analyse())

"""Structural facts about the DEN transmission management (C17) -> lean/Generated/Denm.lean.

An `ast` pass (nothing is imported or executed) over
facilities/decentralized_environmental_notification_service/denm_transmission_management.py:

* `allocLayout` - the body of `DENMTransmissionManagement.allocate_sequence_number`, statement by statement, as
  codes of `FlexModel.Fac.Denm.Conc.Tok`:
    0 acq            `with self._sequence_number_lock:` entered
    1 rel            ... left
    2 readToLocal    `<local> = self.sequence_number`
    3 incrFromAttr   `self.sequence_number = (self.sequence_number + 1) % K`
    4 incrFromLocal  `self.sequence_number = (<local> + 1) % K`      (<local> = the one assigned by code 2)
    5 other          any other statement (an unknown lock, another access, `return` of something that is not the local)
  Local names do not matter (renaming a local is not a change), `return <local>` and the docstring produce no code.
* `allocModulus` - K (both forms must use the same literal), 0 if absent / inconsistent.
* `strayCounterAccesses` - number of `self.sequence_number` accesses in the other methods of the class except
  `__init__` (an unlocked write elsewhere would defeat the section).

`Props/C17.lean` proves `allocLayout ∈ okLayouts ∧ allocModulus = 65536 ∧ strayCounterAccesses = 0` by `decide`:
moving the read or the write-back out of the `with` section re-opens that proof obligation.

Round 4 - the REPETITION BODY (`analyse_body`): the methods reachable from `request_denm_sending`,
`trigger_denm_messages`, `send_collision_risk_warning_denm` through `self.<method>` (calls and references such as
`Thread(target=self.trigger_denm_messages)`), `allocate_sequence_number` excepted (it has its own facts above):
* `bodySharedStores` - stores (assignment / augmented assignment / `del` / `setattr`) through an attribute or subscript
  chain whose root is NOT a local bound in the same function (i.e. `self`, a parameter, a global, the class) plus
  `global` / `nonlocal` declarations: state that outlives the repetition and is visible to the other events' threads.
* `bodySelfAttrs` - the instance attributes read there (methods of the class excluded), sorted.
* `transmitArgs` - one code per `self.transmit_denm(<arg>)`: 0 = <arg> is a local bound, in the SAME loop body (the
  function body when the call is not in a loop), to a fresh `DecentralizedEnvironmentalNotificationMessage()`;
  1 = such a local bound outside the enclosing loop (one object per event); 2 = an expression rooted at `self`;
  3 = anything else.
`Props/C17.lean` (`repetition_message_tied`) proves by `decide` that these say "the message object handed over in a
repetition is local to that repetition"; seeded change C17-m5 (one `self.new_denm` refilled by every repetition of
every event) yields stores > 0, `new_denm` among the attributes read and code 2.

Round 5:
* `snapshotSite` - where the private copy of the request's (mutable) `event_position` is taken:
    0 = in `request_denm_sending`, i.e. on the CALLER's thread, in a statement before the one that creates / starts the
        event thread, and what is passed to the thread (`args=[<name>]`) is a name (re)bound in that method before
        the thread is created (the snapshot, not the caller's object);
    1 = not there, but somewhere in the methods the event thread runs (`trigger_denm_messages` and what it reaches):
        between `Thread.start()` returning and that statement the caller's dictionary is still aliased;
    2 = nowhere (position read by reference for the whole event, C17-F4).
  "copy" = a call of `deepcopy` / `copy.deepcopy` whose argument mentions `.event_position`.
* `bareLockCalls` - number of `<x>.acquire(..)` / `<x>.release(..)` calls in the whole class: a lock taken with a bare
  `acquire()` stays held when the statements up to the `release()` raise - and the repetition loop deliberately
  survives such an exception (C17-F3), so the next repetition of ANY event would block for ever.  Locks only via `with`.
`Props/C17.lean`: `request_snapshot_tied` / `lock_discipline_tied` (`decide`).

Round 6:
* `sleepArgs` - one code per `sleep(..)` call (`time.sleep`, `sleep`, any `<x>.sleep`) in `trigger_denm_messages`:
    0 = a statement of its own directly in the body of the repetition `while` loop (not inside the `try` that protects
        a repetition, not in a branch) whose single argument is the constant interval expression
        `<request>.denm_interval / 1000`, or a local name every binding of which in the function is that expression;
    1 = that argument, but the call is somewhere else (inside try / if / a nested loop / outside the loop);
    2 = any other argument (a subtraction of elapsed time, a second term, a keyword ...).
  The model's loop (`FlexModel.Fac.Denm.loop` / `loopDrift`) waits the nominal interval after every repetition,
  whatever the repetition itself took; `time.sleep(i/1000 - elapsed)` (seeded change C17-m11: 'drift compensation'
  without a clamp at 0, outside the try) raises ValueError as soon as one hand-over outlasts the interval.
`Props/C17.lean`: `repetition_sleep_tied` (`decide`).
"""
from __future__ import annotations

import ast

import gen_lean

FILE = "facilities/decentralized_environmental_notification_service/denm_transmission_management.py"
CLASS = "DENMTransmissionManagement"
LOCK = "_sequence_number_lock"
ATTR = "sequence_number"
ACQ, REL, READ, INCR_ATTR, INCR_LOCAL, OTHER = range(6)


def _is_self_attr(node, attr):
    return (isinstance(node, ast.Attribute) and node.attr == attr and isinstance(node.value, ast.Name)
            and node.value.id == "self")


def _incr(node):
    """`(<x> + 1) % K` -> (x node, K) else None"""
    if (isinstance(node, ast.BinOp) and isinstance(node.op, ast.Mod) and isinstance(node.right, ast.Constant)
            and isinstance(node.right.value, int) and not isinstance(node.right.value, bool)
            and isinstance(node.left, ast.BinOp) and isinstance(node.left.op, ast.Add)
            and isinstance(node.left.right, ast.Constant) and node.left.right.value == 1):
        return node.left.left, node.right.value
    return None


def _layout(stmts, st):
    out = []
    for n in stmts:
        if isinstance(n, ast.Expr) and isinstance(n.value, ast.Constant) and isinstance(n.value.value, str):
            continue                                           # docstring
        if isinstance(n, ast.With):
            if len(n.items) == 1 and n.items[0].optional_vars is None and _is_self_attr(n.items[0].context_expr, LOCK):
                out += [ACQ] + _layout(n.body, st) + [REL]
            else:
                out.append(OTHER)
            continue
        if isinstance(n, ast.Assign) and len(n.targets) == 1:
            tgt, val = n.targets[0], n.value
            if isinstance(tgt, ast.Name) and _is_self_attr(val, ATTR):
                st["local"] = tgt.id
                out.append(READ)
                continue
            inc = _incr(val)
            if _is_self_attr(tgt, ATTR) and inc is not None:
                src, k = inc
                st["moduli"].add(k)
                if _is_self_attr(src, ATTR):
                    out.append(INCR_ATTR)
                    continue
                if isinstance(src, ast.Name) and src.id == st.get("local"):
                    out.append(INCR_LOCAL)
                    continue
            out.append(OTHER)
            continue
        if isinstance(n, ast.Return) and isinstance(n.value, ast.Name) and n.value.id == st.get("local"):
            continue
        if isinstance(n, ast.Pass):
            continue
        out.append(OTHER)
    return out


def analyse():
    tree = ast.parse(gen_lean.src(FILE))
    cls = next((n for n in tree.body if isinstance(n, ast.ClassDef) and n.name == CLASS), None)
    if cls is None:
        raise ValueError(f"class {CLASS} not found in {FILE}")
    fns = {n.name: n for n in cls.body if isinstance(n, ast.FunctionDef)}
    if "allocate_sequence_number" not in fns:
        raise ValueError("DENMTransmissionManagement.allocate_sequence_number not found")
    st = {"moduli": set()}
    layout = _layout(fns["allocate_sequence_number"].body, st)
    stray = 0
    for name, fn in fns.items():
        if name in ("__init__", "allocate_sequence_number"):
            continue
        stray += sum(1 for n in ast.walk(fn) if _is_self_attr(n, ATTR))
    modulus = next(iter(st["moduli"])) if len(st["moduli"]) == 1 else 0
    return {"layout": layout, "modulus": modulus, "stray": stray}


ENTRY = ("request_denm_sending", "trigger_denm_messages", "send_collision_risk_warning_denm")
MSG_CLASS = "DecentralizedEnvironmentalNotificationMessage"
TRANSMIT = "transmit_denm"


def _root(node):
    """root Name of an attribute / subscript chain (None if the chain starts at a call or literal)"""
    while isinstance(node, (ast.Attribute, ast.Subscript, ast.Starred)):
        node = node.value
    return node.id if isinstance(node, ast.Name) else None


def _locals_bound(fn):
    """names bound by plain assignment / for / with / except / comprehension inside `fn` (parameters are NOT locals
    in this sense: what they refer to belongs to the caller)"""
    out = set()
    for n in ast.walk(fn):
        if isinstance(n, ast.Name) and isinstance(n.ctx, ast.Store):
            out.add(n.id)
        elif isinstance(n, ast.ExceptHandler) and n.name:
            out.add(n.name)
    return out


def _is_fresh_msg(value, fns=None, depth=0):
    """`DecentralizedEnvironmentalNotificationMessage()` or a call of a method of the class (`self.<builder>(..)`) every
    `return` of which returns a local bound (only) to such a fresh object"""
    if not isinstance(value, ast.Call):
        return False
    if (not value.args and not value.keywords
            and ((isinstance(value.func, ast.Name) and value.func.id == MSG_CLASS)
                 or (isinstance(value.func, ast.Attribute) and not _is_self_attr_any(value.func) and value.func.attr == MSG_CLASS))):
        return True
    if fns and depth < 3 and _is_self_attr_any(value.func) and value.func.attr in fns:
        fn = fns[value.func.attr]
        rets = [n for n in ast.walk(fn) if isinstance(n, ast.Return)]
        if not rets:
            return False
        for r in rets:
            if not isinstance(r.value, ast.Name):
                return False
            binds = [st.value for st in ast.walk(fn) if isinstance(st, ast.Assign)
                     for t in st.targets if isinstance(t, ast.Name) and t.id == r.value.id]
            if not binds or not all(_is_fresh_msg(b, fns, depth + 1) for b in binds):
                return False
        return True
    return False


def _bindings(stmts, name):
    """assignments `name = <value>` directly in this statement list or in its non-loop compound statements
    (try / if / with bodies belong to the same repetition; nested loops and functions do not)"""
    out = []
    for st in stmts:
        if isinstance(st, ast.Assign) and any(isinstance(t, ast.Name) and t.id == name for t in st.targets):
            out.append(st.value)
        elif isinstance(st, ast.AnnAssign) and isinstance(st.target, ast.Name) and st.target.id == name and st.value is not None:
            out.append(st.value)
        elif isinstance(st, (ast.Try, ast.If, ast.With)):
            for field in ("body", "orelse", "finalbody"):
                out += _bindings(getattr(st, field, []) or [], name)
            for h in getattr(st, "handlers", []) or []:
                out += _bindings(h.body, name)
    return out


def _transmit_codes(fn, fns=None):
    """code of the argument of every `self.transmit_denm(..)` in `fn` (see module docstring)"""
    codes = []

    def visit(stmts, loop_body):
        for st in stmts:
            if isinstance(st, (ast.For, ast.While, ast.AsyncFor)):
                visit(st.body, st.body)
                visit(st.orelse, loop_body)
                continue
            if isinstance(st, (ast.FunctionDef, ast.AsyncFunctionDef, ast.ClassDef)):
                continue
            for field in ("body", "orelse", "finalbody"):
                sub = getattr(st, field, None)
                if isinstance(sub, list) and sub and isinstance(sub[0], ast.stmt):
                    visit(sub, loop_body)
            for h in getattr(st, "handlers", []) or []:
                visit(h.body, loop_body)
            own = [st] if not hasattr(st, "body") else [getattr(st, f) for f in ("test", "iter", "items") if hasattr(st, f)]
            for part in own:
                for sub in (part if isinstance(part, list) else [part]):
                    for n in ast.walk(sub):
                        if isinstance(n, ast.Call) and _is_self_attr(n.func, TRANSMIT):
                            codes.append(classify(n, loop_body))

    def classify(call, loop_body):
        if len(call.args) != 1 or call.keywords:
            return 3
        arg = call.args[0]
        if isinstance(arg, ast.Name):
            inner = _bindings(loop_body, arg.id)
            every = [v for st in ast.walk(fn) if isinstance(st, ast.Assign)
                     for t in st.targets if isinstance(t, ast.Name) and t.id == arg.id for v in [st.value]]
            if every and all(_is_fresh_msg(v, fns) for v in every):
                return 0 if len(inner) == len(every) else 1
            return 3
        if _is_fresh_msg(arg, fns):
            return 0                      # built in place: `self.transmit_denm(self._build(..))`
        return 2 if _root(arg) == "self" else 3

    visit(fn.body, fn.body)
    return codes


def analyse_body():
    tree = ast.parse(gen_lean.src(FILE))
    cls = next((n for n in tree.body if isinstance(n, ast.ClassDef) and n.name == CLASS), None)
    if cls is None:
        raise ValueError(f"class {CLASS} not found in {FILE}")
    fns = {n.name: n for n in cls.body if isinstance(n, (ast.FunctionDef, ast.AsyncFunctionDef))}
    missing = [e for e in ENTRY if e not in fns]
    if missing:
        raise ValueError(f"{CLASS}: entry point(s) {missing} not found")
    reach, todo = [], list(ENTRY)
    while todo:
        name = todo.pop(0)
        if name in reach or name in ("allocate_sequence_number", "__init__"):
            continue
        reach.append(name)
        for n in ast.walk(fns[name]):
            if _is_self_attr_any(n) and n.attr in fns:
                todo.append(n.attr)
    stores, attrs, codes = 0, set(), []
    for name in reach:
        fn = fns[name]
        local = _locals_bound(fn)
        # `with self.<lock>:` sections: the context expression is not a read of shared DATA (round 5: a lock taken
        # with `with` is a harmless change; bare acquire()/release() calls are counted by `analyse_request`)
        with_ctx = {id(it.context_expr) for w in ast.walk(fn) if isinstance(w, (ast.With, ast.AsyncWith)) for it in w.items
                    if it.optional_vars is None}
        for n in ast.walk(fn):
            if isinstance(n, (ast.Global, ast.Nonlocal)):
                stores += 1
            elif isinstance(n, (ast.Attribute, ast.Subscript)) and isinstance(n.ctx, (ast.Store, ast.Del)):
                r = _root(n)
                if r is None or r not in local:
                    stores += 1
            elif isinstance(n, ast.Call) and isinstance(n.func, ast.Name) and n.func.id in ("setattr", "delattr"):
                r = _root(n.args[0]) if n.args else None
                if r is None or r not in local:
                    stores += 1
            if _is_self_attr_any(n) and n.attr not in fns and id(n) not in with_ctx:
                attrs.add(n.attr)
        codes += _transmit_codes(fn, fns)
    return {"reach": reach, "stores": stores, "attrs": sorted(attrs), "transmit": codes}


def _mentions_attr(node, attr):
    return any(isinstance(n, ast.Attribute) and n.attr == attr for n in ast.walk(node))


def _has_position_copy(node):
    """a `deepcopy(..)` / `copy.deepcopy(..)` call under `node` whose arguments mention `.event_position`"""
    for n in ast.walk(node):
        if isinstance(n, ast.Call) and ((isinstance(n.func, ast.Name) and n.func.id == "deepcopy")
                                        or (isinstance(n.func, ast.Attribute) and n.func.attr == "deepcopy")):
            if any(_mentions_attr(a, "event_position") for a in list(n.args) + [k.value for k in n.keywords]):
                return True
    return False


def _is_thread_ctor(n):
    return isinstance(n, ast.Call) and ((isinstance(n.func, ast.Attribute) and n.func.attr == "Thread")
                                        or (isinstance(n.func, ast.Name) and n.func.id == "Thread"))


def analyse_request():
    """round 5: where the snapshot of the request is taken, and bare acquire()/release() calls (see module docstring)"""
    tree = ast.parse(gen_lean.src(FILE))
    cls = next((n for n in tree.body if isinstance(n, ast.ClassDef) and n.name == CLASS), None)
    if cls is None:
        raise ValueError(f"class {CLASS} not found in {FILE}")
    fns = {n.name: n for n in cls.body if isinstance(n, (ast.FunctionDef, ast.AsyncFunctionDef))}
    if "request_denm_sending" not in fns or "trigger_denm_messages" not in fns:
        raise ValueError(f"{CLASS}: request_denm_sending / trigger_denm_messages not found")
    req = fns["request_denm_sending"]
    params = {a.arg for a in req.args.args + req.args.kwonlyargs}
    site, copied, bound = None, False, set()
    for st in req.body:
        ctor = next((n for n in ast.walk(st) if _is_thread_ctor(n)), None)
        starts = any(isinstance(n, ast.Call) and isinstance(n.func, ast.Attribute) and n.func.attr == "start" for n in ast.walk(st))
        if ctor is not None or starts:
            if ctor is not None:
                passed = []
                for k in ctor.keywords:
                    if k.arg in ("args", "kwargs"):
                        passed += [n.id for n in ast.walk(k.value) if isinstance(n, ast.Name)]
                for a in ctor.args[2:]:
                    passed += [n.id for n in ast.walk(a) if isinstance(n, ast.Name)]
                raw = [nm for nm in passed if nm in params and nm not in bound and nm != "self"]
                site = 0 if (copied and not raw) else None
            break
        if _has_position_copy(st):
            copied = True
        bound |= {n.id for n in ast.walk(st) if isinstance(n, ast.Name) and isinstance(n.ctx, ast.Store)}
    if site is None:
        reach, todo = [], ["trigger_denm_messages"]
        while todo:
            name = todo.pop(0)
            if name in reach:
                continue
            reach.append(name)
            todo += [n.attr for n in ast.walk(fns[name]) if _is_self_attr_any(n) and n.attr in fns]
        site = 1 if any(_has_position_copy(fns[name]) for name in reach) else 2
    bare = sum(1 for n in ast.walk(cls) if isinstance(n, ast.Call) and isinstance(n.func, ast.Attribute)
               and n.func.attr in ("acquire", "release"))
    return {"snapshot_site": site, "bare_lock_calls": bare}


def _is_interval_expr(node):
    """`<name>.denm_interval / 1000`"""
    return (isinstance(node, ast.BinOp) and isinstance(node.op, ast.Div)
            and isinstance(node.right, ast.Constant) and type(node.right.value) is int and node.right.value == 1000
            and isinstance(node.left, ast.Attribute) and node.left.attr == "denm_interval"
            and isinstance(node.left.value, ast.Name))


def analyse_sleep():
    """round 6: the argument and the place of every sleep call of the repetition loop (see module docstring)"""
    tree = ast.parse(gen_lean.src(FILE))
    cls = next((n for n in tree.body if isinstance(n, ast.ClassDef) and n.name == CLASS), None)
    if cls is None:
        raise ValueError(f"class {CLASS} not found in {FILE}")
    fn = next((n for n in cls.body if isinstance(n, (ast.FunctionDef, ast.AsyncFunctionDef))
               and n.name == "trigger_denm_messages"), None)
    if fn is None:
        raise ValueError(f"{CLASS}.trigger_denm_messages not found")

    def is_sleep(n):
        return isinstance(n, ast.Call) and ((isinstance(n.func, ast.Attribute) and n.func.attr == "sleep")
                                            or (isinstance(n.func, ast.Name) and n.func.id == "sleep"))

    direct = {id(st.value) for w in fn.body if isinstance(w, ast.While) for st in w.body
              if isinstance(st, ast.Expr) and is_sleep(st.value)}

    def arg_ok(call):
        if len(call.args) != 1 or call.keywords:
            return False
        a = call.args[0]
        if _is_interval_expr(a):
            return True
        if isinstance(a, ast.Name):
            binds = [st.value for st in ast.walk(fn) if isinstance(st, ast.Assign)
                     for t in st.targets if isinstance(t, ast.Name) and t.id == a.id]
            stores = sum(1 for n in ast.walk(fn) if isinstance(n, ast.Name) and n.id == a.id and isinstance(n.ctx, ast.Store))
            return bool(binds) and stores == len(binds) and all(_is_interval_expr(b) for b in binds)
        return False

    codes = []
    for n in ast.walk(fn):
        if is_sleep(n):
            codes.append(2 if not arg_ok(n) else (0 if id(n) in direct else 1))
    return {"sleep_args": codes}


def _is_self_attr_any(node):
    return isinstance(node, ast.Attribute) and isinstance(node.value, ast.Name) and node.value.id == "self"


@gen_lean.register(props=["C17"])
def gen_denm():
    info = analyse()
    body_info = analyse_body()
    body = "namespace Generated.Denm\n"
    body += ("/-- `DENMTransmissionManagement.allocate_sequence_number`, statement by statement (harness/gen_denm.py):\n"
             "    0 acq `with self._sequence_number_lock:`, 1 rel, 2 `<local> = self.sequence_number`,\n"
             "    3 `self.sequence_number = (self.sequence_number + 1) % K`, 4 `self.sequence_number = (<local> + 1) % K`,\n"
             "    5 anything else -/\n")
    body += f"def allocLayout : List Nat := {gen_lean.lean_nat_list(info['layout'])}\n"
    body += f"def allocModulus : Nat := {info['modulus']}\n"
    body += ("/-- `self.sequence_number` accesses of the transmission management outside `__init__` and\n"
             "    `allocate_sequence_number` -/\n")
    body += f"def strayCounterAccesses : Nat := {info['stray']}\n"
    body += ("/-- repetition body = methods reachable from request_denm_sending / trigger_denm_messages /\n"
             f"    send_collision_risk_warning_denm through `self.<method>`: {', '.join(body_info['reach'])}.\n"
             "    Stores through `self` / a parameter / a global (attribute or subscript chains not rooted at a local of the\n"
             "    same function), `setattr`, `global` / `nonlocal` declarations -/\n")
    body += f"def bodySharedStores : Nat := {body_info['stores']}\n"
    body += "/-- instance attributes read in the repetition body (methods of the class excluded) -/\n"
    body += "def bodySelfAttrs : List String := [" + ", ".join('"%s"' % a for a in body_info["attrs"]) + "]\n"
    body += ("/-- argument of every `self.transmit_denm(..)`: 0 local bound in the same loop body to a fresh\n"
             f"    `{MSG_CLASS}()`, 1 such a local bound outside the loop, 2 rooted at `self`, 3 anything else -/\n")
    body += f"def transmitArgs : List Nat := {gen_lean.lean_nat_list(body_info['transmit'])}\n"
    rq = analyse_request()
    body += ("/-- where the private copy of the request's mutable `event_position` is taken: 0 = in `request_denm_sending`\n"
             "    (the caller's thread) before the event thread is created and the thread is given the copy, 1 = only in the\n"
             "    methods the event thread runs, 2 = nowhere -/\n")
    body += f"def snapshotSite : Nat := {rq['snapshot_site']}\n"
    body += "/-- `<x>.acquire(..)` / `<x>.release(..)` calls in the class (locks are to be taken with `with` only) -/\n"
    body += f"def bareLockCalls : Nat := {rq['bare_lock_calls']}\n"
    sl = analyse_sleep()
    body += ("/-- one code per `sleep(..)` call in `trigger_denm_messages`: 0 = a statement of its own directly in the body of\n"
             "    the repetition `while` loop with the constant interval `<request>.denm_interval / 1000` as its only argument,\n"
             "    1 = that argument but elsewhere (inside try / if / outside the loop), 2 = any other argument -/\n")
    body += f"def sleepArgs : List Nat := {gen_lean.lean_nat_list(sl['sleep_args'])}\n"
    body += "end Generated.Denm\n"
    gen_lean.write_if_changed("Denm.lean", body)


if __name__ == "__main__":
    print(analyse())
    print(analyse_body())
    print(analyse_request())
    print(analyse_sleep())

#!/venv/bin/python
"""lead tool: run harness/seedtest.py for many seeds in parallel on PRIVATE COPIES of /verif (each copy has its own
lean/.lake, lean/Generated and locks, so runs against mutated trees neither wait for nor disturb each other), then merge
the verdicts into seeded/RESULTS_ALL.json.

usage: seedtest_parallel.py [-j N] [<seed-id> ...]      (default: every seed under seeded/, N = 6)
The copies live under /tmp/vpar_<k> and are removed afterwards."""
import json
import os
import shutil
import subprocess
import sys

VERIF = os.path.dirname(os.path.dirname(os.path.abspath(__file__)))


def main():
    args = sys.argv[1:]
    n = 6
    prefix = os.environ.get("SEEDTEST_PREFIX", "vpar")      # several invocations at once need different prefixes
    if args[:1] == ["-j"]:
        n = int(args[1]); args = args[2:]
    seeds = args or sorted(d for d in os.listdir(os.path.join(VERIF, "seeded"))
                           if os.path.isfile(os.path.join(VERIF, "seeded", d, "patch.diff")))
    # keep the seeds of one property together (they share build products), spread properties over the copies
    byprop = {}
    for s in seeds:
        byprop.setdefault(s.split("-")[0], []).append(s)
    buckets = [[] for _ in range(n)]
    for i, (p, ss) in enumerate(sorted(byprop.items(), key=lambda kv: -len(kv[1]))):
        min(buckets, key=len).extend(ss)
    procs = []
    for k, b in enumerate(buckets):
        if not b:
            continue
        d = f"/tmp/{prefix}_{k}"
        r = subprocess.run(["rsync", "-a", "--delete", "--exclude", ".git", "--exclude", "replays", VERIF + "/", d + "/"])
        assert r.returncode in (0, 24), r.returncode      # 24: a temp file vanished while copying (other processes at work)
        log = open(f"/tmp/{prefix}_{k}.log", "w")
        procs.append((k, d, subprocess.Popen(["/venv/bin/python", "harness/seedtest.py", *b], cwd=d, stdout=log, stderr=subprocess.STDOUT)))
    merged_path = os.path.join(VERIF, "seeded", "RESULTS_ALL.json")
    merged = json.load(open(merged_path)) if os.path.exists(merged_path) else {}
    for k, d, p in procs:
        p.wait()
        sys.stdout.write(open(f"/tmp/{prefix}_{k}.log").read())
        try:
            res = json.load(open(os.path.join(d, "seeded", "RESULTS_ALL.json")))
            tested = set(buckets[k])
            merged.update({key: v for key, v in res.items() if key.split("/")[0] in tested})
        except Exception as e:  # noqa: BLE001
            print(f"copy {k}: no results ({e})")
        shutil.rmtree(d, ignore_errors=True)
    json.dump(merged, open(merged_path, "w"), indent=1, sort_keys=True)
    subprocess.run("git -C /repo worktree prune", shell=True)


if __name__ == "__main__":
    main()

"""Generated/RouterRx.lean (property C06): structural facts about the per-thread receive context of
`flexstack.geonet.router.Router`, re-read from the current source on every run by an `ast` pass.

The wire-level model (`lean/FlexModel/Geo/RouterSec.lean`) has ONE receive context per thread that is set by
`process_security_header` for the duration of the dispatch, cleared on EVERY exit of the dispatch (flag `ctxFinally`),
read by `_forward_pdu` only, and `_forward_pdu` is called by the forwarders of the receive path only.  Each of these is
a fact about the shape of the source; `Props.C06.rx_context_discipline_of_source` discharges them by `decide`, so a
source change (reset moved out of the `finally`, `threading.local` replaced by a plain attribute, another writer or
reader, a source operation routed through `_forward_pdu`) re-opens the proof obligation.
"""
from __future__ import annotations

import ast

import gen_lean
from gen_lean import src, write_if_changed

ATTR = "_rx_context"
FIELD = "secured_message"


def _is_ctx_field(node) -> bool:
    """`self._rx_context.secured_message`"""
    return (isinstance(node, ast.Attribute) and node.attr == FIELD and isinstance(node.value, ast.Attribute)
            and node.value.attr == ATTR and isinstance(node.value.value, ast.Name) and node.value.value.id == "self")


def _mentions_ctx(node) -> bool:
    return any(isinstance(n, ast.Attribute) and n.attr == ATTR for n in ast.walk(node))


def _calls_method(node, name) -> bool:
    for n in ast.walk(node):
        if isinstance(n, ast.Call) and isinstance(n.func, ast.Attribute) and n.func.attr == name:
            return True
    return False


def _is_reset(stmt) -> bool:
    return (isinstance(stmt, ast.Assign) and len(stmt.targets) == 1 and _is_ctx_field(stmt.targets[0])
            and isinstance(stmt.value, ast.Constant) and stmt.value.value is None)


def _lean_strs(xs):
    return "[" + ", ".join('"' + x + '"' for x in xs) + "]"


def facts():
    tree = ast.parse(src("geonet/router.py"))
    cls = next(n for n in tree.body if isinstance(n, ast.ClassDef) and n.name == "Router")
    funcs = [n for n in cls.body if isinstance(n, (ast.FunctionDef, ast.AsyncFunctionDef))]
    # (1) thread-local: `from threading import ... local` and `self._rx_context = local()` in __init__ (and nowhere else)
    local_names = set()
    for n in tree.body:
        if isinstance(n, ast.ImportFrom) and n.module == "threading":
            for a in n.names:
                if a.name == "local":
                    local_names.add(a.asname or a.name)
    creators = []
    thread_local = False
    for f in funcs:
        for n in ast.walk(f):
            if isinstance(n, (ast.Assign, ast.AnnAssign)):
                targets = n.targets if isinstance(n, ast.Assign) else [n.target]
                for t in targets:
                    if isinstance(t, ast.Attribute) and t.attr == ATTR:
                        creators.append(f.name)
                        v = n.value
                        ok = (isinstance(v, ast.Call) and not v.args and not v.keywords
                              and ((isinstance(v.func, ast.Name) and v.func.id in local_names)
                                   or (isinstance(v.func, ast.Attribute) and v.func.attr == "local"
                                       and isinstance(v.func.value, ast.Name) and v.func.value.id == "threading")))
                        thread_local = ok
    thread_local = thread_local and creators == ["__init__"]
    # (2) writers of the field / readers of the context
    writers, readers = [], []
    for f in funcs:
        w = r = False
        for n in ast.walk(f):
            if isinstance(n, ast.Attribute) and n.attr == ATTR and f.name not in creators:
                r = True
            if isinstance(n, (ast.Assign, ast.AugAssign, ast.AnnAssign, ast.Delete)):
                targets = n.targets if isinstance(n, (ast.Assign, ast.Delete)) else [n.target]
                if any(_is_ctx_field(t) for t in targets):
                    w = True
            if isinstance(n, ast.Call) and isinstance(n.func, ast.Name) and n.func.id in ("setattr", "delattr") \
                    and n.args and _mentions_ctx(n.args[0]):
                w = True
        if w:
            writers.append(f.name)
        elif r:
            readers.append(f.name)
    # (3) in process_security_header: the field is set, the NEXT statement is a `try` whose body contains the dispatch
    #     (`self.process_common_header(...)`) and whose `finally` resets the field to None - or the assignment sits inside
    #     the body of such a `try`; every assignment of a non-None value is such a one, and the dispatch is never called
    #     outside such a `try`
    reset_in_finally = False
    psh = next((f for f in funcs if f.name == "process_security_header"), None)
    if psh is not None:
        # statements guarded by a `try` whose `finally` resets the context
        guarded = set()
        for st in ast.walk(psh):
            if isinstance(st, ast.Try) and any(_is_reset(x) for x in st.finalbody):
                for b in st.body:
                    for n in ast.walk(b):
                        guarded.add(id(n))
        sets = good = 0
        for parent in ast.walk(psh):
            for field in ("body", "orelse", "finalbody", "handlers"):
                block = getattr(parent, field, None)
                if not isinstance(block, list):
                    continue
                for i, st in enumerate(block):
                    if isinstance(st, ast.Assign) and any(_is_ctx_field(t) for t in st.targets) and not _is_reset(st):
                        sets += 1
                        nxt = block[i + 1] if i + 1 < len(block) else None
                        before_try = (isinstance(nxt, ast.Try) and any(_is_reset(x) for x in nxt.finalbody)
                                      and any(_calls_method(x, "process_common_header") for x in nxt.body))
                        if before_try or id(st) in guarded:
                            good += 1
        # the dispatch itself must not happen outside such a try
        dispatch_outside = any(
            isinstance(n, ast.Call) and isinstance(n.func, ast.Attribute) and n.func.attr == "process_common_header"
            and id(n) not in guarded for n in ast.walk(psh))
        reset_in_finally = sets >= 1 and good == sets and not dispatch_outside
    # (4) who builds PDUs through _forward_pdu
    callers = [f.name for f in funcs if f.name != "_forward_pdu" and _calls_method(f, "_forward_pdu")]
    return dict(thread_local=thread_local, writers=writers, readers=readers, reset_in_finally=reset_in_finally,
                callers=callers)


DPL_ATTRS = ("dpl_set", "dpl_deque")


def dpl_touchers():
    """`Class.method` of every function in geonet/location_table.py and geonet/router.py that mentions the duplicate packet
    list (`dpl_set` / `dpl_deque`) - the list must be touched by the entry's constructor and by the DPD step only: nothing
    (no exception handler, no maintenance method) may take an accepted sequence number out again (round 6, C06-m12)"""
    out = []
    for path in ("geonet/location_table.py", "geonet/router.py"):
        tree = ast.parse(src(path))
        for cls in [n for n in tree.body if isinstance(n, ast.ClassDef)]:
            for fn in [n for n in cls.body if isinstance(n, (ast.FunctionDef, ast.AsyncFunctionDef))]:
                if any(isinstance(n, ast.Attribute) and n.attr in DPL_ATTRS for n in ast.walk(fn)) or \
                        any(isinstance(n, ast.Constant) and n.value in DPL_ATTRS for n in ast.walk(fn)):
                    out.append(f"{cls.name}.{fn.name}")
        for fn in [n for n in tree.body if isinstance(n, (ast.FunctionDef, ast.AsyncFunctionDef))]:
            if any(isinstance(n, ast.Attribute) and n.attr in DPL_ATTRS for n in ast.walk(fn)):
                out.append(fn.name)
    return out


@gen_lean.register(props=["C06"])
def gen_router_rx():
    f = facts()
    b = lambda v: "true" if v else "false"  # noqa: E731
    body = "namespace Generated.RouterRx\n"
    body += ("/-- `self._rx_context = local()` (threading.local), created in `__init__` only -/\n"
             f"def ctxThreadLocal : Bool := {b(f['thread_local'])}\n")
    body += ("/-- in `process_security_header` every assignment of a secured message to the context is immediately followed by a\n"
             "`try` whose body holds the dispatch and whose `finally` resets the context to None -/\n"
             f"def ctxResetInFinally : Bool := {b(f['reset_in_finally'])}\n")
    body += f"/-- methods of Router that assign / delete `self._rx_context.secured_message` -/\ndef ctxWriters : List String := {_lean_strs(f['writers'])}\n"
    body += f"/-- other methods of Router that mention `self._rx_context` -/\ndef ctxReaders : List String := {_lean_strs(f['readers'])}\n"
    body += f"/-- methods of Router that call `self._forward_pdu` -/\ndef forwardPduCallers : List String := {_lean_strs(f['callers'])}\n"
    body += ("/-- functions of location_table.py / router.py that mention the duplicate packet list (`dpl_set`, `dpl_deque`) -/\n"
             f"def dplTouchers : List String := {_lean_strs(dpl_touchers())}\n")
    body += "end Generated.RouterRx\n"
    write_if_changed("RouterRx.lean", body)


@gen_lean.register(props=["C06"])
def gen_locks_for_c06():
    """`Props.C06.refresh_table_is_one_section` (two receive threads, round 5) is discharged over `Generated/Locks.lean`: the
    lock-section shape of `LocationTable.refresh_table`, regenerated by C15's ast pass (harness/gen_locks.py) - run it for
    C06 too so that a source change of that shape re-opens C06's obligation."""
    import gen_locks
    gen_locks.gen_locks()


if __name__ == "__main__":
    print(facts())

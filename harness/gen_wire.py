"""Generated facts for C02 (wire formats): value tables of every header enum, re-read from the source on
every C02 run -> lean/Generated/WireEnums.lean.  The decoders of the Lean model accept exactly these codes
(enum construction -> ValueError otherwise) and Props/C02.lean proves by `decide` that the tables equal
the code points of the standard (Wire/Spec.lean), so a changed enum re-opens the obligation."""
from __future__ import annotations

import os
import sys

import gen_lean


def _c02_run() -> bool:
    """WireEnums.lean is written only by a C02 check (`vcheck.py C02 ...`) or on explicit request
    (VERIF_GEN_WIRE=1): builders of other properties run `gen_lean.py` against *their* worktrees in parallel and
    would otherwise flip this file (and break the `tables` obligation of C02) under a concurrent C02 build."""
    return os.environ.get("VERIF_GEN_WIRE") == "1" or any(a.upper() == "C02" for a in sys.argv[1:])


@gen_lean.register(props=["C02"])
def gen_wire_enums(force=False):
    if not (force or _c02_run()):
        return
    from flexstack.geonet import basic_header, service_access_point as sap, gn_address, mib
    body = "namespace Generated.WireEnums\n"
    for mod, names in ((basic_header, ["BasicNH", "LTbase"]),
                       (sap, ["CommonNH", "HeaderType", "HeaderSubType", "TopoBroadcastHST", "GeoBroadcastHST",
                              "GeoAnycastHST", "LocationServiceHST"]),
                       (gn_address, ["M", "ST"]),
                       (mib, ["GnIsMobile"])):
        for n in names:
            e = getattr(mod, n)
            vals = sorted(int(x.value) for x in e)
            body += f"def {n}_values : List Nat := {gen_lean.lean_nat_list(vals)}\n"
            for x in e:
                body += f"def {n}_{x.name} : Nat := {int(x.value)}\n"
    body += "end Generated.WireEnums\n"
    gen_lean.write_if_changed("WireEnums.lean", body)


# =====================================================================================================
# Structural facts of the packet-assembly code (ast passes) -> lean/Generated/WireFacts.lean
# =====================================================================================================
def _is_self_attr(node, attr=None):
    import ast
    return (isinstance(node, ast.Attribute) and isinstance(node.value, ast.Name) and node.value.id == "self"
            and (attr is None or node.attr == attr))


def _thread_local_ctor(call, tree):
    """is `call` a call of threading.local (as imported by this module: `from threading import local [as x]`,
    `import threading [as t]` + `t.local()`), with no arguments"""
    import ast
    if not isinstance(call, ast.Call) or call.args or call.keywords:
        return False
    names, mods = set(), set()
    for n in ast.walk(tree):
        if isinstance(n, ast.ImportFrom) and n.module == "threading":
            names |= {a.asname or a.name for a in n.names if a.name == "local"}
        elif isinstance(n, ast.Import):
            mods |= {a.asname or a.name for a in n.names if a.name == "threading"}
    f = call.func
    if isinstance(f, ast.Name):
        return f.id in names
    return isinstance(f, ast.Attribute) and f.attr == "local" and isinstance(f.value, ast.Name) and f.value.id in mods


def rx_context_facts(source: str) -> dict:
    """The per-reception context of geonet.Router: the attribute(s) X with a store `self.X.secured_message = ...` (the
    secured message of the packet being received, re-emitted by `_forward_pdu`).
      holders      : number of such attributes X
      thread_local : every binding `self.X = <value>` anywhere in the class is `threading.local()` (and there is one)
      reset_finally: every store of a non-None value to `self.X.secured_message` is the statement right before a `try:` whose
                     `finally:` stores None to it (the context never outlives the dispatch of its packet)
      readers      : functions that read `self.X` (`getattr(self.X, "secured_message", ...)` / attribute load)"""
    import ast
    tree = ast.parse(source)
    cls = next(n for n in tree.body if isinstance(n, ast.ClassDef) and n.name == "Router")
    holders = set()
    for n in ast.walk(cls):
        if isinstance(n, ast.Assign):
            for t in n.targets:
                if isinstance(t, ast.Attribute) and t.attr == "secured_message" and _is_self_attr(t.value):
                    holders.add(t.value.attr)
    binds = [n for n in ast.walk(cls) if isinstance(n, (ast.Assign, ast.AnnAssign))
             for t in (n.targets if isinstance(n, ast.Assign) else [n.target]) if _is_self_attr(t) and t.attr in holders]
    thread_local = bool(holders) and bool(binds) and all(_thread_local_ctor(b.value, tree) for b in binds) and \
        {t.attr for b in binds for t in (b.targets if isinstance(b, ast.Assign) else [b.target]) if _is_self_attr(t)} >= holders

    def is_store(st, none):
        if not (isinstance(st, ast.Assign) and len(st.targets) == 1):
            return False
        t = st.targets[0]
        if not (isinstance(t, ast.Attribute) and t.attr == "secured_message" and _is_self_attr(t.value) and t.value.attr in holders):
            return False
        return (isinstance(st.value, ast.Constant) and st.value.value is None) == none
    sets = resets_ok = 0
    for n in ast.walk(cls):
        for field in ("body", "orelse", "finalbody"):
            block = getattr(n, field, None)
            if not isinstance(block, list):
                continue
            for i, st in enumerate(block):
                if is_store(st, none=False):
                    sets += 1
                    nxt = block[i + 1] if i + 1 < len(block) else None
                    if isinstance(nxt, ast.Try) and any(is_store(f, none=True) and ast.dump(f.targets[0]) == ast.dump(st.targets[0])
                                                        for f in nxt.finalbody):
                        resets_ok += 1
    readers = sorted({fn.name for fn in ast.walk(cls) if isinstance(fn, (ast.FunctionDef, ast.AsyncFunctionDef))
                      for n in ast.walk(fn) if _is_self_attr(n) and n.attr in holders and isinstance(n.ctx, ast.Load)
                      and fn.name != "__init__"})
    return {"holders": len(holders), "thread_local": thread_local, "sets": sets, "reset_finally": sets > 0 and resets_ok == sets,
            "readers": readers}


def btp_length_facts(source: str) -> dict:
    """Every `GNDataRequest(...)` built in btp.Router.btp_data_request: is its `length=` argument `len(E)` with E the very
    expression given as `data=` (so that the Common Header PL field counts the octets handed to GeoNetworking, whatever the
    BTP-Data.request declares)?   sites: number of constructor calls; from_data: number of those with length = len(data expr)"""
    import ast
    tree = ast.parse(source)
    cls = next(n for n in tree.body if isinstance(n, ast.ClassDef) and n.name == "Router")
    fn = next(n for n in cls.body if isinstance(n, ast.FunctionDef) and n.name == "btp_data_request")
    sites = from_data = 0
    for n in ast.walk(fn):
        if isinstance(n, ast.Call) and isinstance(n.func, ast.Name) and n.func.id == "GNDataRequest":
            sites += 1
            kw = {k.arg: k.value for k in n.keywords}
            ln, data = kw.get("length"), kw.get("data")
            if (data is not None and isinstance(ln, ast.Call) and isinstance(ln.func, ast.Name) and ln.func.id == "len"
                    and len(ln.args) == 1 and not ln.keywords and ast.dump(ln.args[0]) == ast.dump(data)):
                from_data += 1
    return {"sites": sites, "from_data": from_data}


def de_pv_copy_facts(source: str) -> list:
    """Copies of a LOCATION TABLE position vector into a packet header (the DE PV of an originated GUC packet, of the LS
    reply, the DE PV refresh of the GUC / LS-reply forwarders).  `LocationTableEntry.position_vector` is an immutable object
    that the receive threads REPLACE (`update_position_vector`); a copy whose fields are read through several loads of the
    attribute can put a vector on the wire that the table never held.
    For every function of geonet.Router and every `ShortPositionVector(...)` constructor call in it whose arguments derive from
    a `.position_vector` attribute (directly, or through locals of the function - resolved through ALL their assignments):
    the number of DISTINCT loads (ast nodes) of such an attribute that feed the arguments.
    -> [(function, ordinal of the copy site inside the function, loads)]; names of locals are not part of the result."""
    import ast
    tree = ast.parse(source)
    cls = next(n for n in tree.body if isinstance(n, ast.ClassDef) and n.name == "Router")
    out = []
    for fn in cls.body:
        if not isinstance(fn, (ast.FunctionDef, ast.AsyncFunctionDef)):
            continue
        assigns = {}
        for x in ast.walk(fn):
            if isinstance(x, ast.Assign):
                for t in x.targets:
                    if isinstance(t, ast.Name):
                        assigns.setdefault(t.id, []).append(x.value)
                    elif isinstance(t, (ast.Tuple, ast.List)):
                        # `a, b = E1, E2` element-wise; any other unpacking: every name depends on the whole right-hand side
                        vals = x.value.elts if isinstance(x.value, (ast.Tuple, ast.List)) and len(x.value.elts) == len(t.elts) else None
                        for i, e in enumerate(t.elts):
                            if isinstance(e, ast.Name):
                                assigns.setdefault(e.id, []).append(vals[i] if vals else x.value)
            elif isinstance(x, (ast.AnnAssign, ast.NamedExpr)) and isinstance(x.target, ast.Name) and x.value is not None:
                assigns.setdefault(x.target.id, []).append(x.value)

        def loads(expr, seen):
            found = set()
            for x in ast.walk(expr):
                if isinstance(x, ast.Attribute) and x.attr == "position_vector" and isinstance(x.ctx, ast.Load):
                    found.add((x.lineno, x.col_offset, x.end_lineno, x.end_col_offset))
                elif isinstance(x, ast.Name) and isinstance(x.ctx, ast.Load) and x.id in assigns and x.id not in seen:
                    for v in assigns[x.id]:
                        found |= loads(v, seen | {x.id})
            return found
        calls = sorted((c for c in ast.walk(fn) if isinstance(c, ast.Call)
                        and ((isinstance(c.func, ast.Name) and c.func.id == "ShortPositionVector")
                             or (isinstance(c.func, ast.Attribute) and c.func.attr == "ShortPositionVector"))),
                       key=lambda c: (c.lineno, c.col_offset))
        k = 0
        for c in calls:
            found = set()
            for a in list(c.args) + [kw.value for kw in c.keywords]:
                found |= loads(a, frozenset())
            if found:
                out.append((fn.name, k, len(found)))
                k += 1
    return out


@gen_lean.register(props=["C02"])
def gen_wire_facts(force=False):
    if not (force or _c02_run()):
        return
    rx = rx_context_facts(gen_lean.src("geonet/router.py"))
    bt = btp_length_facts(gen_lean.src("btp/router.py"))
    cp = de_pv_copy_facts(gen_lean.src("geonet/router.py"))
    b = lambda x: "true" if x else "false"
    body = "namespace Generated.WireFacts\n"
    body += "/-- geonet.Router: attributes X with a store `self.X.secured_message = …` (per-reception secured-message context) -/\n"
    body += f"def rxContextHolders : Nat := {rx['holders']}\n"
    body += "/-- every binding of such an X is `threading.local()` -/\n"
    body += f"def rxContextThreadLocal : Bool := {b(rx['thread_local'])}\n"
    body += "/-- every store of a secured message into the context is followed by `try: … finally: <store None>` -/\n"
    body += f"def rxContextResetInFinally : Bool := {b(rx['reset_finally'])}\n"
    body += "/-- btp.Router.btp_data_request: `GNDataRequest(...)` constructor calls / those with `length = len(<the data= expression>)` -/\n"
    body += f"def btpGnRequestSites : Nat := {bt['sites']}\n"
    body += f"def btpGnLengthFromData : Nat := {bt['from_data']}\n"
    body += ("/-- geonet.Router: (function, ordinal of the copy site, number of distinct loads of a `.position_vector` attribute that feed\n"
             "the arguments of that `ShortPositionVector(...)` constructor call) - the copies of a location-table position vector into a header -/\n"
             "def dePvCopies : List (String × Nat × Nat) := [" + ", ".join(f'("{f}", {k}, {n})' for f, k, n in cp) + "]\n")
    body += "end Generated.WireFacts\n"
    gen_lean.write_if_changed("WireFacts.lean", body)

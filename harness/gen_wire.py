"""Generated facts for C02 (wire formats): value tables of every header enum, re-read from the source on
every C02 run -> lean/Generated/WireEnums.lean.  The decoders of the Lean model accept exactly these codes
(enum construction -> ValueError otherwise) and Props/C02.lean proves by `decide` that the tables equal
the code points of the standard (Wire/Spec.lean), so a changed enum re-opens the obligation."""
from __future__ import annotations

import os
import sys

import gen_lean


def _c02_run() -> bool:
    """WireEnums.lean is written only by a C02 check (`vcheck.py C02 ...`) or on explicit request
    (VERIF_GEN_WIRE=1): builders of other properties run `gen_lean.py` against *their* worktrees in parallel and
    would otherwise flip this file (and break the `tables` obligation of C02) under a concurrent C02 build."""
    return os.environ.get("VERIF_GEN_WIRE") == "1" or any(a.upper() == "C02" for a in sys.argv[1:])


@gen_lean.register(props=["C02"])
def gen_wire_enums(force=False):
    if not (force or _c02_run()):
        return
    from flexstack.geonet import basic_header, service_access_point as sap, gn_address, mib
    body = "namespace Generated.WireEnums\n"
    for mod, names in ((basic_header, ["BasicNH", "LTbase"]),
                       (sap, ["CommonNH", "HeaderType", "HeaderSubType", "TopoBroadcastHST", "GeoBroadcastHST",
                              "GeoAnycastHST", "LocationServiceHST"]),
                       (gn_address, ["M", "ST"]),
                       (mib, ["GnIsMobile"])):
        for n in names:
            e = getattr(mod, n)
            vals = sorted(int(x.value) for x in e)
            body += f"def {n}_values : List Nat := {gen_lean.lean_nat_list(vals)}\n"
            for x in e:
                body += f"def {n}_{x.name} : Nat := {int(x.value)}\n"
    body += "end Generated.WireEnums\n"
    gen_lean.write_if_changed("WireEnums.lean", body)

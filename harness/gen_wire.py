"""Generated facts for C02 (wire formats): value tables of every header enum, re-read from the source on
every C02 run -> lean/Generated/WireEnums.lean.  The decoders of the Lean model accept exactly these codes
(enum construction -> ValueError otherwise) and Props/C02.lean proves by `decide` that the tables equal
the code points of the standard (Wire/Spec.lean), so a changed enum re-opens the obligation."""
from __future__ import annotations

import gen_lean


@gen_lean.register(props=["C02"])
def gen_wire_enums():
    from flexstack.geonet import basic_header, service_access_point as sap, gn_address, mib
    body = "namespace Generated.WireEnums\n"
    for mod, names in ((basic_header, ["BasicNH", "LTbase"]),
                       (sap, ["CommonNH", "HeaderType", "HeaderSubType", "TopoBroadcastHST", "GeoBroadcastHST",
                              "GeoAnycastHST", "LocationServiceHST"]),
                       (gn_address, ["M", "ST"]),
                       (mib, ["GnIsMobile"])):
        for n in names:
            e = getattr(mod, n)
            vals = sorted(int(x.value) for x in e)
            body += f"def {n}_values : List Nat := {gen_lean.lean_nat_list(vals)}\n"
            for x in e:
                body += f"def {n}_{x.name} : Nat := {int(x.value)}\n"
    body += "end Generated.WireEnums\n"
    gen_lean.write_if_changed("WireEnums.lean", body)

#!/venv/bin/python
"""lead tool (never run by a check): fill the `commit` field of every status:"fixed" entry of known_findings*.json with the
hash of the `fix:` commit in /repo that repaired it, and write FIXED.md-style lines
`fixed: property=<id> <commit> <what failed>` into known_findings.d/FIXED.txt (same information, greppable).

An entry names its repair either through `commit` = "fixes/<name>.diff" (as the builders wrote it), through a hash, or
through the table ENTRY_FIX below (entries whose builders left the field empty).  The hash is looked up by the subject
line of fixes/<name>.msg in `git -C /repo log`."""
import glob
import json
import os
import re
import subprocess

VERIF = os.path.dirname(os.path.dirname(os.path.abspath(__file__)))

ENTRY_FIX = {
    "C02-F1": ["C02-1-signed-lat-lon-speed"], "C02-F2": ["C02-1-signed-lat-lon-speed"],
    "C02-F3": ["C02-2-ls-mobility-flag"], "C02-F4": ["C02-3-rsu-station-type"], "C02-F5": ["C02-4-default-traffic-class"],
    "C02-KF3": ["C02-5-forward-secured-envelope"], "C02-F6": ["C02-5-forward-secured-envelope"],
    "C04-F2": ["C04-report-cannot-stop-loop"], "C04-F3": ["C04-own-source-ignored"],
    "C05-F2": ["C05-per-ticket-certificate-timer"],
    "C06-F1": ["C06-gac-rhl-zero"], "C06-F2": ["C06-cbf-duplicate-discards"],
    "C08-F1": ["C08-refresh-ms-clock"], "C08-F2": ["C08-gbc-neighbour"], "C08-F3": ["C08-tst-zero"],
    "C08-F4": ["C08-purge-before-update"],
    "C10-F2": ["C10-gdt-float-truncation"], "C10-F3": ["C11-vam-missing-fields"], "C10-F4": ["C10-cam-ldm-failure"],
    "C10-F5": ["C10-cam-restart-min-gap"], "C10-F6": ["C10-vam-lf-time-after-send"],
    "C11-F1": ["C11-altitude-guards"], "C11-F2": ["C11-de-ranges"], "C11-F3": ["C11-de-ranges"],
    "C11-F4": ["C11-vam-missing-fields"], "C11-F5": ["C10-gdt-float-truncation"], "C11-F6": ["C11-vehicle-role-names"],
    "C11-F7": ["C11-denm-stale-position"], "C11-F8": ["C11-rx-clock-truncation"],
    "C11-F9": ["C11-altitude-confidence-boundary"], "C11-F10": ["C11-ellipse-orientation"],
    "C15-KF2": ["C15-locte-update-under-lock"],
    "C16-KF3": ["C16-delete-result"], "C16-KF4": ["C16-unsubscribe-result"],
    "C18-F1": ["C18-1-cluster-vam-coder-shapes"], "C18-F2": ["C18-2-heartbeat-cluster-vam-only"],
    "C18-F3": ["C18-3-leave-and-join-info-together"], "C18-F4": ["C18-4-no-cluster-creation-during-notification"],
    "C18-F5": ["C18-5-quarter-second-time-at-least-1"], "C18-F6": ["C18-6-leave-notice-before-cancelled-join"],
}


def main():
    log = subprocess.run("git -C /repo log --format='%h %s'", shell=True, capture_output=True, text=True).stdout
    by_subject = {}
    for line in log.strip().split("\n"):
        h, _, subj = line.partition(" ")
        by_subject[subj.strip()] = h
    hashes = set(by_subject.values())

    def fix_hash(name):
        msg = os.path.join(VERIF, "fixes", name + ".msg")
        if not os.path.exists(msg):
            return None
        subj = open(msg).read().strip().split("\n")[0].strip()
        if not subj.startswith("fix:"):
            subj = "fix: " + subj
        return by_subject.get(subj)

    lines, missing = [], []
    for p in [os.path.join(VERIF, "known_findings.json")] + sorted(glob.glob(os.path.join(VERIF, "known_findings.d", "*.json"))):
        data = json.load(open(p))
        changed = False
        for e in data:
            if e.get("status") != "fixed":
                continue
            cur = str(e.get("commit") or "")
            names = re.findall(r"fixes/([A-Za-z0-9_.-]+?)\.diff", cur) or ENTRY_FIX.get(e["id"], [])
            found = [h for h in (fix_hash(n) for n in names) if h]
            already = [t for t in re.findall(r"\b[0-9a-f]{7,12}\b", cur) if t in hashes]
            allh = list(dict.fromkeys(already + found))
            if not allh:
                missing.append(e["id"])
                continue
            new = " ".join(allh) + (f" (fixes/{names[0]}.diff)" if names else "")
            if new != cur:
                e["commit"] = new
                changed = True
            lines.append(f"fixed: property={e['property']} {' '.join(allh)} {e['id']} {e['what'][:300]}")
        if changed:
            json.dump(data, open(p, "w"), indent=1, ensure_ascii=False)
    open(os.path.join(VERIF, "known_findings.d", "FIXED.txt"), "w").write("\n".join(sorted(lines)) + "\n")
    print(f"{len(lines)} fixed entries with commits; without a commit in /repo: {missing}")


if __name__ == "__main__":
    main()

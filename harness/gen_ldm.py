"""Generated/Ldm.lean: facts of the Local Dynamic Map re-read from the repository on every run (C12, C13, C14).

type table (DATA_OBJECT_TYPE_ID), VALID_ITS_AID, ITS epoch constants, maintenance constants, reactive intervals,
the RelevanceDistance comparison table (probed through RelevanceDistance.compare_with_int), enum values of the
result codes the model prints.
"""
from __future__ import annotations

import gen_lean
from gen_lean import write_if_changed, lean_nat_list


def _lean_str(s):
    return '"' + s.replace("\\", "\\\\").replace('"', '\\"') + '"'


def probe_relevance():
    """for every code k: ('lt', t) if compare_with_int(v) == (v < t), ('gt', t) if == (v > t); anything else fails"""
    from flexstack.facilities.local_dynamic_map.ldm_classes import RelevanceDistance
    less, greater = [], []
    cands = sorted({c + d for c in (50, 100, 200, 500, 1000, 5000, 10000, 20000) for d in (-1, 0, 1)} | {0, 10 ** 6})
    k = 0
    while True:
        rd = RelevanceDistance(relevance_distance=k)
        try:
            vals = [(v, bool(rd.compare_with_int(v))) for v in cands]
        except ValueError:
            break
        if vals[0][1]:      # true at 0: "less than t"
            t = next(v for v, b in vals if not b)
            assert all(b == (v < t) for v, b in vals), (k, vals)
            less.append((k, t))
        else:
            t = max(v for v, b in vals if not b)
            assert all(b == (v > t) for v, b in vals), (k, vals)
            greater.append((k, t))
        k += 1
        if k > 64:
            raise AssertionError("RelevanceDistance accepts unboundedly many codes")
    return less, greater


@gen_lean.register(props=["C12", "C13", "C14"])
def gen_ldm():
    from flexstack.facilities.local_dynamic_map import ldm_constants as c
    from flexstack.facilities.local_dynamic_map import ldm_classes as k
    from flexstack.facilities.local_dynamic_map import ldm_maintenance_reactive as mr
    from flexstack.facilities.local_dynamic_map import ldm_service_reactive as sr
    from flexstack.utils import time_service as ts
    body = "namespace Generated.Ldm\n"
    tab = ", ".join(f"({i}, {_lean_str(n)})" for i, n in c.DATA_OBJECT_TYPE_ID.items())
    body += f"def typeTable : List (Nat × String) := [{tab}]\n"
    body += f"def validItsAid : List Nat := {lean_nat_list(sorted(c.VALID_ITS_AID))}\n"
    body += f"def denm : Nat := {c.DENM}\ndef spatem : Nat := {c.SPATEM}\ndef mapem : Nat := {c.MAPEM}\n"
    body += f"def dataObjectField : String := {_lean_str(c.DATA_OBJECT_FIELD_NAME)}\n"
    body += f"def itsEpoch : Int := {int(ts.ITS_EPOCH)}\ndef elapsedSeconds : Int := {int(ts.ELAPSED_SECONDS)}\n"
    body += f"def maxAltDiff : Int := {int(c.MAINTENANCE_AREA_MAX_ALTITUDE_DIFFERENCE)}\n"
    tr, at = mr.TRASH_COLLECTION_INTERVAL * 1000, sr.ATTEND_SUBSCRIPTIONS_INTERVAL * 1000
    if tr != int(tr) or at != int(at):
        raise AssertionError("reactive intervals are not whole milliseconds")
    body += f"def trashIntervalMs : Int := {int(tr)}\ndef attendIntervalMs : Int := {int(at)}\n"
    less, greater = probe_relevance()
    body += "def relLess : List (Nat × Nat) := [" + ", ".join(f"({a}, {b})" for a, b in less) + "]\n"
    body += "def relGreater : List (Nat × Nat) := [" + ", ".join(f"({a}, {b})" for a, b in greater) + "]\n"
    ops = [str(o) for o in k.ComparisonOperators]
    body += "def comparisonOperators : List String := [" + ", ".join(_lean_str(o) for o in ops) + "]\n"
    body += "def operatorMappingKeys : List String := [" + ", ".join(_lean_str(o) for o in c.OPERATOR_MAPPING) + "]\n"
    for enum in (k.RequestedDataObjectsResult, k.SubscribeDataobjectsResult, k.UpdateDataProviderResult,
                 k.DeleteDataProviderResult, k.UnsubscribeDataConsumerAck, k.OrderingDirection, k.LogicalOperators):
        body += f"def {enum.__name__}_values : List (String × Nat) := [" + ", ".join(
            f"({_lean_str(m.name)}, {int(m.value)})" for m in enum) + "]\n"
    body += "end Generated.Ldm\n"
    write_if_changed("Ldm.lean", body)

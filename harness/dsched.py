"""Deterministic cooperative scheduler for REAL Python threads (C15 / C16, DESIGN §7 and appendix A).

Exactly one managed thread runs at any time (baton passing on private semaphores).  A running thread reaches
*pre-emption points*
  * `op`    – before every shared-state-relevant bytecode (attribute load/store, subscript, `in`, call, iteration)
              inside the functions registered for opcode tracing (`frame.f_trace_opcodes = True`),
  * `line`  – before every line of the other functions of the traced files,
  * `acq` / `rel` – before acquiring / after releasing a scheduler-aware lock, `start` – thread/timer start,
and asks the *policy* which enabled thread runs next.  `Lock`/`RLock`/`Timer` as imported by the target modules are
replaced (in the module namespace) by `SLock`/`STimer`: a contended acquire parks the thread instead of blocking the
process; when nothing is enabled and some thread is blocked the run is reported as a deadlock.

Policies: `Replay(prefix)` (explicit list of thread choices, then non-pre-emptive default) – used for the
systematic enumeration up to a pre-emption bound (`enumerate_schedules`) and for replaying saved schedules –
and `PCT` (random priorities with priority-change points).  All randomness comes from the `random.Random` passed in.
"""
from __future__ import annotations

import dis
import sys
import threading
import types

_real_Lock = threading.Lock
_real_Semaphore = threading.Semaphore
_real_Thread = threading.Thread

INTERESTING = {"LOAD_ATTR", "STORE_ATTR", "DELETE_ATTR", "BINARY_SUBSCR", "STORE_SUBSCR", "DELETE_SUBSCR",
               "CONTAINS_OP", "CALL", "CALL_FUNCTION_EX", "CALL_KW", "FOR_ITER", "GET_ITER", "LOAD_METHOD",
               "BINARY_SLICE", "STORE_SLICE", "RETURN_VALUE", "RETURN_CONST"}
BRANCH_KINDS = {"op", "acq", "rel", "start", "end", "blocked"}

_active = None          # the scheduler currently running (at most one)


class SchedAbort(BaseException):
    """raised inside parked threads to unwind them when a run is aborted (deadlock / step limit)"""


class TState:
    __slots__ = ("tid", "name", "sem", "status", "waiting", "exc", "thread", "result", "steps")

    def __init__(self, tid, name):
        self.tid, self.name = tid, name
        self.sem = _real_Semaphore(0)
        self.status = "ready"       # ready | blocked | done
        self.waiting = None
        self.exc = None
        self.thread = None
        self.result = None
        self.steps = 0


# ------------------------------------------------------------------------------------------------ policies


class Replay:
    """follow `prefix` (thread ids, one per step at which more than one thread was enabled), then continue the current
    thread while it is enabled (lowest enabled id otherwise)"""

    def __init__(self, prefix=()):
        self.prefix = list(prefix)
        self.i = 0

    def choose(self, cur, enabled, kind, branching):
        if not branching:
            return cur if cur in enabled else enabled[0]
        if self.i < len(self.prefix):
            c = self.prefix[self.i]
            self.i += 1
            if c in enabled:
                return c
            # schedule no longer applicable (code changed): fall through to default
        else:
            self.i += 1
        return cur if cur in enabled else enabled[0]


class PCT:
    """Burckhardt et al.: random distinct priorities, d-1 priority change points among ~k steps"""

    def __init__(self, rng, depth=3, est_steps=200):
        self.rng, self.depth, self.k = rng, depth, max(est_steps, 2)
        self.prio = {}
        self.change = sorted(rng.randrange(1, self.k) for _ in range(max(depth - 1, 0)))
        self.n = 0
        self.low = 0

    def _p(self, t):
        if t not in self.prio:
            self.prio[t] = self.rng.random() + 1.0
        return self.prio[t]

    def choose(self, cur, enabled, kind, branching):
        self.n += 1
        while self.change and self.n >= self.change[0]:
            self.change.pop(0)
            if cur is not None:
                self.low -= 1
                self.prio[cur] = self.low       # below every initial priority
        return max(enabled, key=lambda t: (self._p(t), -t))


# ------------------------------------------------------------------------------------------------ scheduler


_primed = False


def _prime_opcode_tracing():
    """CPython >= 3.12 implements sys.settrace on top of sys.monitoring: per-instruction events are only switched on
    by a sys.settrace() call made AFTER some frame has set f_trace_opcodes.  Without this priming the first run of a
    process would see no `opcode` events (and a saved schedule would not replay in a fresh process)."""
    global _primed
    if _primed:
        return

    def dummy():
        return None

    def tr(frame, event, arg):
        frame.f_trace_opcodes = True
        return None
    old = sys.gettrace()
    sys.settrace(tr)
    dummy()
    sys.settrace(old)
    _primed = True


class DSched:
    def __init__(self, policy, line_files=(), opcode_codes=(), max_steps=200000, line_points=True, focus_codes=None):
        _prime_opcode_tracing()
        self.policy = policy
        # focus (optional): code objects; when given, a running thread reaches pre-emption points (`op`, `line`, `acq`, `rel`)
        # only while one of these functions is on its call stack - the rest of every thread runs without being pre-empted.
        # A subset of the schedules, all of them genuine; small enough to ENUMERATE every schedule with two pre-emptions
        # inside the functions that touch one shared attribute (timer expiry racing with a cancellation, ...).
        self.focus_codes = None if focus_codes is None else set(focus_codes)
        self.line_files = set(line_files)
        self.opcode_codes = set(opcode_codes)      # code objects traced at opcode granularity
        self.line_points = line_points
        self.max_steps = max_steps
        self.threads = []
        self.by_ident = {}
        self.current = None
        self.steps = []             # (chosen, enabled tuple, cur, kind) for every step with more than one enabled thread
        self.nsteps = 0
        self.deadlock = None        # list of (thread name, lock name) when detected
        self.aborting = False
        self.abort_reason = None
        self.done_evt = threading.Event()
        self.events = []            # harness event log (total order): append via log()
        self.timers = []
        self.timer_filter = None    # callable(STimer) -> bool: does this timer get a thread when started
        self._interesting = {}
        self._meta = _real_Lock()

    # -- public API
    def spawn(self, fn, name=None):
        """register a managed thread (before or during run)"""
        tid = len(self.threads)
        ts = TState(tid, name or f"t{tid}")
        self.threads.append(ts)

        def body():
            self.by_ident[threading.get_ident()] = ts
            ts.sem.acquire()                      # wait for the baton
            try:
                if self.aborting:
                    raise SchedAbort()
                sys.settrace(self._global_trace)
                try:
                    ts.result = fn()
                finally:
                    sys.settrace(None)
            except SchedAbort:
                pass
            except BaseException as e:            # noqa: BLE001 - the exception IS the observation
                ts.exc = e
            finally:
                self._finish(ts)

        ts.thread = _real_Thread(target=body, daemon=True, name=ts.name)
        ts.thread.start()
        return ts

    def log(self, *ev):
        self.events.append(ev)

    def me(self):
        return self.by_ident.get(threading.get_ident())

    def run(self, timeout=60.0):
        """start scheduling; returns when every managed thread finished or the run was aborted"""
        global _active
        _active = self
        try:
            if not self.threads:
                return self
            enabled = self._enabled(None)
            first = self.policy.choose(None, enabled, "start", True)
            self.steps.append((first, tuple(enabled), None, "start"))
            self.current = first
            self.threads[first].sem.release()
            if not self.done_evt.wait(timeout):
                self.abort_reason = "timeout"
                self._abort()
                self.done_evt.wait(5.0)
            for ts in self.threads:
                ts.thread.join(2.0)
        finally:
            _active = None
        return self

    # -- internals
    def _enabled(self, me):
        out = []
        for ts in self.threads:
            if ts.status == "ready":
                out.append(ts.tid)
            elif ts.status == "blocked" and ts.waiting is not None and ts.waiting._free_for(ts):
                out.append(ts.tid)
        return out

    def _abort(self):
        self.aborting = True
        for ts in self.threads:
            if ts.status != "done":
                ts.sem.release()

    def _switch(self, me, kind, can_continue):
        """scheduling decision taken by the running thread `me`"""
        if self.aborting:
            raise SchedAbort()
        self.nsteps += 1
        if self.nsteps > self.max_steps:
            self.abort_reason = "step-limit"
            self._abort()
            self.done_evt.set()
            raise SchedAbort()
        enabled = self._enabled(me)
        if not can_continue and me.tid in enabled:
            enabled.remove(me.tid)
        if not enabled:
            # nothing can run: `me` is blocked as well -> deadlock
            self.deadlock = [(t.name, getattr(t.waiting, "name", "?")) for t in self.threads if t.status == "blocked"]
            self.abort_reason = "deadlock"
            self._abort()
            self.done_evt.set()
            raise SchedAbort()
        branching = len(enabled) > 1
        cur = me.tid if can_continue else None
        choice = self.policy.choose(cur, enabled, kind, branching)
        if branching:
            self.steps.append((choice, tuple(enabled), cur, kind))
        if choice == me.tid:
            return
        self.current = choice
        self.threads[choice].sem.release()
        me.sem.acquire()
        if self.aborting:
            raise SchedAbort()

    def _in_focus(self):
        f = sys._getframe(2)
        while f is not None:
            if f.f_code in self.focus_codes:
                return True
            f = f.f_back
        return False

    def yield_point(self, kind):
        me = self.me()
        if me is None or self.current != me.tid:
            return
        if self.focus_codes is not None and kind != "start" and not self._in_focus():
            return
        self._switch(me, kind, True)

    def block_on(self, lock):
        me = self.me()
        me.status, me.waiting = "blocked", lock
        try:
            self._switch(me, "blocked", False)
        finally:
            me.status, me.waiting = "ready", None

    def _finish(self, ts):
        ts.status = "done"
        if self.aborting:
            if all(t.status == "done" for t in self.threads):
                self.done_evt.set()
            return
        enabled = self._enabled(None)
        if not enabled:
            if any(t.status == "blocked" for t in self.threads):
                self.deadlock = [(t.name, getattr(t.waiting, "name", "?")) for t in self.threads if t.status == "blocked"]
                self.abort_reason = "deadlock"
                self._abort()
            self.done_evt.set()
            return
        branching = len(enabled) > 1
        choice = self.policy.choose(None, enabled, "end", branching)
        if branching:
            self.steps.append((choice, tuple(enabled), None, "end"))
        self.current = choice
        self.threads[choice].sem.release()

    # -- tracing
    def _mode(self, code):
        if code in self.opcode_codes:
            return "opcode"
        if code.co_filename in self.line_files:
            return "line"
        return None

    def _global_trace(self, frame, event, arg):
        if event != "call":
            return None
        code = frame.f_code
        mode = self._mode(code)
        if mode is None:
            return None
        if mode == "opcode":
            frame.f_trace_opcodes = True
            if code not in self._interesting:
                self._interesting[code] = {i.offset for i in dis.get_instructions(code) if i.opname in INTERESTING}
            return self._trace_opcode
        return self._trace_line if self.line_points else None

    def _trace_opcode(self, frame, event, arg):
        if event == "opcode" and frame.f_lasti in self._interesting[frame.f_code]:
            self.yield_point("op")
        return self._trace_opcode

    def _trace_line(self, frame, event, arg):
        if event == "line":
            self.yield_point("line")
        return self._trace_line


# ------------------------------------------------------------------------------------------------ locks, timers


class SLock:
    """scheduler-aware replacement of threading.Lock / RLock"""
    _n = 0

    def __init__(self, reentrant=False, name=None):
        SLock._n += 1
        self.reentrant = reentrant
        self.owner = None
        self.count = 0
        self.name = name or f"lock{SLock._n}"

    def _free_for(self, ts):
        return self.owner is None or (self.reentrant and self.owner is ts)

    def acquire(self, blocking=True, timeout=-1):
        s = _active
        me = s.me() if s is not None else None
        if me is None:
            # outside a scheduled run (set-up code on the main thread): plain semantics
            if self.owner is None or (self.reentrant and self.owner == "main"):
                self.owner, self.count = "main", self.count + 1
                return True
            if not blocking:
                return False
            raise RuntimeError(f"{self.name}: acquire outside the scheduler would block")
        s.yield_point("acq")
        while not self._free_for(me):
            if not blocking:
                return False
            s.block_on(self)
        self.owner = me
        self.count += 1
        return True

    def release(self):
        if self.owner is None:
            raise RuntimeError("release unlocked lock")
        self.count -= 1
        if self.count == 0:
            self.owner = None
        s = _active
        if s is not None and s.me() is not None:
            s.yield_point("rel")

    def locked(self):
        return self.owner is not None

    def __enter__(self):
        self.acquire()
        return True

    def __exit__(self, *a):
        self.release()
        return False


def Lock():
    return SLock(False)


def RLock():
    return SLock(True)


class NoLock:
    """a lock that does not lock (used by self-tests to emulate a dropped `with`)"""

    def acquire(self, *a, **k):
        return True

    def release(self):
        pass

    __enter__ = acquire

    def __exit__(self, *a):
        return False


class STimer:
    """virtual threading.Timer: `start()` registers a managed thread that may run at ANY later point chosen by the
    policy (virtual time: the interval only orders nothing); `cancel()` is honoured iff it happens before the
    thread's check, exactly like threading.Timer.run"""

    def __init__(self, interval, function, args=None, kwargs=None):
        self.interval, self.function = interval, function
        self.args = args if args is not None else []
        self.kwargs = kwargs if kwargs is not None else {}
        self.cancelled = False
        self.started = False
        self.fired = False
        self.daemon = True
        self.ts = None
        s = _active
        self.creator = s.me().name if s is not None and s.me() is not None else "main"
        if s is not None:
            s.timers.append(self)

    def start(self):
        self.started = True
        s = _active
        if s is None or s.me() is None:
            return
        if s.timer_filter is not None and not s.timer_filter(self):
            return

        def body():
            if not self.cancelled:
                self.fired = True
                self.function(*self.args, **self.kwargs)

        self.ts = s.spawn(body, name=f"tm{len(s.timers)}[{self.creator}]")
        s.yield_point("start")

    def adopt(self, s, name=None):
        """a timer started BEFORE the scheduled run (sequential set-up on the main thread) gets its thread now: it may
        expire at any point of the run, `cancel()` is honoured iff it comes before the thread's check"""
        if self.ts is not None or not self.started or self.cancelled:
            return None

        def body():
            if not self.cancelled:
                self.fired = True
                self.function(*self.args, **self.kwargs)

        s.timers.append(self)
        self.ts = s.spawn(body, name=name or f"tm{len(s.timers)}[pre]")
        return self.ts

    def cancel(self):
        self.cancelled = True

    def is_alive(self):
        return self.started and not self.fired and not self.cancelled

    def join(self, timeout=None):
        pass


class ThreadingProxy:
    """stands in for the `threading` module object in modules that do `import threading`"""

    def __init__(self, **over):
        self._over = over

    def __getattr__(self, name):
        if name in self._over:
            return self._over[name]
        return getattr(threading, name)


class patched:
    """context manager: replace Lock/RLock/Timer (or the `threading` name) in the given modules' namespaces"""

    def __init__(self, modules, extra=None):
        self.modules, self.saved, self.extra = modules, [], extra or {}

    def __enter__(self):
        repl = {"Lock": Lock, "RLock": RLock, "Timer": STimer}
        repl.update(self.extra)
        for m in self.modules:
            for name, val in repl.items():
                if name in m.__dict__:
                    self.saved.append((m, name, m.__dict__[name]))
                    setattr(m, name, val)
            if isinstance(m.__dict__.get("threading"), types.ModuleType):
                self.saved.append((m, "threading", m.__dict__["threading"]))
                setattr(m, "threading", ThreadingProxy(**repl))
        return self

    def __exit__(self, *a):
        for m, name, val in reversed(self.saved):
            setattr(m, name, val)
        return False


# ------------------------------------------------------------------------------------------------ exploration


def preemptions(steps, upto=None):
    n = 0
    for (chosen, enabled, cur, kind) in steps[:upto]:
        if cur is not None and cur in enabled and chosen != cur:
            n += 1
    return n


COARSE_KINDS = {"acq", "rel", "start", "end", "blocked"}      # lock-section boundaries and thread start / end only


def enumerate_schedules(run_once, bound, cap, rng=None, kinds=None, order="any"):
    """systematic stateless search: `run_once(prefix) -> steps` executes the scenario under Replay(prefix) and returns
    the branching steps it took.  Children of a run differ from it at one later step; runs with more than `bound`
    pre-emptions are not generated.  Yields nothing; `run_once` judges each run itself.  Returns (#runs, exhausted).
    `kinds`: step kinds at which alternatives are generated (default BRANCH_KINDS; COARSE_KINDS = a thread is switched
    only where it takes / releases a lock, starts or ends - the granularity of a model whose lock sections are atomic).
    `order="bfs"`: schedules with fewer pre-emptions first (all schedules with p pre-emptions run before any with p+1, so a
    cap that is not reached means `exhausted` up to the bound and a cap that is reached still covers the low bounds
    completely); default: any order (random when `rng` is given)."""
    kinds = BRANCH_KINDS if kinds is None else kinds
    bfs = order == "bfs"
    work = [[]]                     # order "any": one list; "bfs": one bucket per number of pre-emptions
    buckets = {0: [[]]}
    runs = 0
    seen = set()
    while (any(buckets.values()) if bfs else work):
        if runs >= cap:
            return runs, False
        if bfs:
            b = buckets[min(c for c, w in buckets.items() if w)]
            prefix = b.pop() if rng is None else b.pop(rng.randrange(len(b)))
        else:
            prefix = work.pop() if rng is None else work.pop(rng.randrange(len(work)))
        steps = run_once(prefix)
        runs += 1
        choices = [s[0] for s in steps]
        base = preemptions(steps, len(prefix))
        p = base
        for i in range(len(prefix), len(steps)):
            chosen, enabled, cur, kind = steps[i]
            for alt in enabled:
                if alt == chosen or kind not in kinds:
                    continue
                cost = p + (1 if (cur is not None and cur in enabled and alt != cur) else 0)
                if cost > bound:
                    continue
                child = tuple(choices[:i] + [alt])
                if child not in seen:
                    seen.add(child)
                    if bfs:
                        buckets.setdefault(cost, []).append(list(child))
                    else:
                        work.append(list(child))
            if cur is not None and cur in enabled and chosen != cur:
                p += 1
    return runs, True

#!/venv/bin/python
"""Verify a seeded breaking change independently and file it under /verif/seeded/<id>/.
usage: seed_verify.py <dir with patch.diff demo.py meta.json> <seed-id>
Checks in a scratch worktree of /repo (removed afterwards): demo exits 0 unchanged; patch applies; the 930 baseline tests
still pass with the patch; demo exits non-zero with the patch."""
import json, os, shutil, subprocess, sys, tempfile
import xml.etree.ElementTree as ET

VERIF = os.path.dirname(os.path.dirname(os.path.abspath(__file__)))


def sh(cmd, **kw):
    return subprocess.run(cmd, shell=True, capture_output=True, text=True, **kw)


def main():
    src, sid = sys.argv[1], sys.argv[2]
    wt = tempfile.mkdtemp(prefix="sv_", dir="/tmp")
    os.rmdir(wt)
    assert sh(f"git -C /repo worktree add -q --detach {wt} HEAD").returncode == 0
    env = dict(os.environ, PYTHONPATH=f"{wt}/src")
    ran = []
    try:
        demo = os.path.join(src, "demo.py")
        r0 = sh(f"/venv/bin/python {demo}", cwd=wt, env=env, timeout=600)
        ran.append(f"demo on unchanged tree: exit {r0.returncode}")
        ra = sh(f"git -C {wt} apply {os.path.join(src, 'patch.diff')}")
        if ra.returncode != 0:
            print("patch does not apply:", ra.stderr[:300]); return 1
        xml = os.path.join(wt, "junit.xml")
        sh(f"/venv/bin/python -m pytest -q -p no:cacheprovider --timeout=900 --continue-on-collection-errors --junitxml={xml}", cwd=wt, env=env, timeout=1800)
        passed = set()
        for tc in ET.parse(xml).getroot().iter("testcase"):
            if not any(ch.tag in ("failure", "error", "skipped") for ch in tc):
                passed.add(f"{tc.get('classname')}::{tc.get('name')}")
        base = set(json.load(open("/root/.vp/BASELINE.json"))["stable_pass"])
        missing = sorted(base - passed)
        ran.append(f"test suite with the change: {len(passed)} passed, {len(missing)} baseline tests missing")
        r1 = sh(f"/venv/bin/python {demo}", cwd=wt, env=env, timeout=600)
        ran.append(f"demo with the change: exit {r1.returncode}: {(r1.stdout + r1.stderr).strip()[-300:]}")
        ok = r0.returncode == 0 and r1.returncode != 0 and not missing
        print("\n".join(ran))
        print("VERIFIED" if ok else "REJECTED", sid)
        if ok:
            dst = os.path.join(VERIF, "seeded", sid)
            os.makedirs(dst, exist_ok=True)
            for f in ("patch.diff", "demo.py"):
                shutil.copy(os.path.join(src, f), os.path.join(dst, f))
            meta = json.load(open(os.path.join(src, "meta.json")))
            meta["verified_by_lead"] = ran
            json.dump(meta, open(os.path.join(dst, "meta.json"), "w"), indent=1)
        return 0 if ok else 1
    finally:
        sh(f"git -C /repo worktree remove --force {wt}")
        sh("git -C /repo worktree prune")


if __name__ == "__main__":
    sys.exit(main())

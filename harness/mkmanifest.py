#!/usr/bin/env python3
"""Writes /verif/MANIFEST.json from the table below (kept as code so it stays valid and consistent)."""
import json, os
HERE = os.path.dirname(os.path.abspath(__file__))
VERIF = os.path.dirname(HERE)

CHECKS = {
 "C20": dict(
   text="Lean 4 theorems 'model meets Spec': the Spec (Geo/LTSpec.lean) is written from EN 302 636-4-1 9.6.4 / 10.3 and the "
        "property text and uses no model function; proved for ALL inputs: the LT octet written for a requested (or MIB default) "
        "lifetime is the one the property demands (does not exceed it, no representable lifetime that does not exceed it is "
        "larger, non-zero from 50 ms) - for the repaired quantiser everywhere, for the code as it is below 1 000 000 ms "
        "(known finding C20-KF1 = exactly the band above, proved reachable: itsGnMaxPacketLifetime is enforced nowhere); the "
        "shift/mask decoder of all 256 LT octets reads the value of the standard's table; the remaining lifetime put into the "
        "GN-DATA.indication never exceeds it (and loses < 1 s); the hop limits of the six source operations are the Spec's "
        "(SHB/beacon 1, multi-hop RHL = MHL = requested-if-specified else itsGnDefaultHopLimit, LS default) under the stated "
        "interface convention '0 and 1 mean not specified'; the receiver guard rejects exactly RHL > MHL, and on C04's "
        "byte-level receive model such a frame changes no state and causes no action. Bridge: the AST-extracted "
        "set_value_in_millis equals the model for all inputs (Props.C20Bridge; a dropped bridge is reported as "
        "BRIDGE-DROPPED in the evidence). Tie: differential correspondence through LT.set_value_in_millis, the BasicHeader "
        "API (integer and fractional ms), packets emitted by a real Router for every transport type incl. GUC released by "
        "the location service and one secured SHB, all five indication sites x a sweep of LT octets, receiver guard pairs "
        "(thorough: exhaustive 0..7 000 000 ms, all 256 octets, all hop limits). Round 5: `originate` models the assembly "
        "of the basic header by a source operation (built once from the RESOLVED hop limit; the itsGnSecurity=ENABLED "
        "branches of SHB/GBC/GAC change NH only): for every request/default/configuration RHL (in the clear) = MHL "
        "(inside the envelope) = the Spec's budget and the LT octet is the demanded one (originate_hops_meet_spec, "
        "originate_lifetime_meets_spec, security_changes_nh_only); for EVERY serialisation of the constructor calls of any "
        "number of originating threads each call's lifetime honours its own request (every_schedule_honours_each_request), "
        "resting on the regenerated fact that no function of basic_header.py writes class/module-level state "
        "(constructors_write_no_shared_state; negative model + witness memo_race_witness shows why), and on "
        "one_basic_header_per_operation / no_raw_request_hop_limit (ast pass over router.py). Tie: security-enabled real "
        "Router with a real SignService, MHL parsed independently out of the signed payload, every requested hop limit "
        "0..255 x profiles x lifetimes; 2-3 originating threads under harness/dsched.py at bytecode granularity of "
        "basic_header.py (pre-emption bound 1, exhaustive for the two-request scenarios).",
   note="Trusted: Lean kernel (axioms propext/Classical.choice/Quot.sound only), the hand transcription of the standard into "
        "LTSpec.lean and the Python oracle, the harness; the float glue int(s*1000) is exercised not proved. Modelled, not "
        "verified: the hop-limit / lifetime SELECTION inside the Router (srcHops, srcLifetime, indRemainingS are hand-written "
        "3-line models tied by correspondence on emitted bytes / indications only - no AST extraction); the hop guard for "
        "secured frames (reached after the verify service; three secured deliveries are judged); schedules of originating "
        "threads beyond pre-emption bound 1 and shared state outside basic_header.py (sampled, not enumerated); "
        "TSB multi-hop origination does not exist in the code "
        "(NotImplementedError). Interface convention, not a finding: a multi-hop request cannot ask for hop limit 1 "
        "(sent with itsGnDefaultHopLimit; the property text says so). Known finding C20-KF1 (>= 1 000 000 ms -> 0) is "
        "pinned by the repo's own unit test.",
   technique="Lean 4 proof (omega, decide +kernel over complete 256/64x4 tables) + AST-extraction bridge for the quantiser + "
             "differential correspondence, exhaustive in thorough tier",
   design="8/C20"),
}
NOT_YET = {}

def load_fragments():
    d = os.path.join(HERE, "manifest.d")
    enabled_path = os.path.join(d, "ENABLED")
    enabled = set(open(enabled_path).read().split()) if os.path.exists(enabled_path) else set()
    if os.path.isdir(d):
        for f in sorted(os.listdir(d)):
            if f.endswith(".json"):
                frag = json.load(open(os.path.join(d, f)))
                for pid, c in frag.items():
                    if pid not in enabled:
                        continue   # fragment written by a builder, not yet integrated by the lead
                    if c.get("not_applicable"):
                        NOT_YET[pid] = c["not_applicable"]
                    else:
                        CHECKS[pid] = c


def main():
    load_fragments()
    props = [json.loads(l) for l in open(os.path.join(VERIF, "properties.jsonl"))]
    checks, na = [], []
    for p in props:
        pid = p["id"]
        if pid in CHECKS:
            c = CHECKS[pid]
            checks.append({
                "property_id": pid,
                "quick_cmd": f"/venv/bin/python harness/vcheck.py {pid} --tier quick",
                "thorough_cmd": f"/venv/bin/python harness/vcheck.py {pid} --tier thorough",
                "evidence_file": f"/verif/evidence/{pid}.json",
                "replay_cmd_template": f"/venv/bin/python harness/vcheck.py {pid} --replay {{path}}",
                "engine": "lean4-proof+correspondence",
                "level_claimed": {"category": "proof", "text": c["text"], "design_ref": "DESIGN.md §" + c["design"]},
                "level_note": c["note"],
                "technique": c["technique"],
            })
        else:
            na.append({"property_id": pid, "reason": NOT_YET.get(pid, "check not built yet in this round (planned, see DESIGN.md §8); not claimed")})
    man = {
        "version": 1,
        "setup_cmd": "cd /verif && ./setup.sh",
        "hooks": {"guard": "FLEXSTACK_VERIF", "enable": "no source hooks: the harness monkeypatches clock/timers/link layer from outside (DESIGN.md §7)",
                  "baseline_off_cmd": "/venv/bin/python /verif/harness/baseline_off.py", "source_commits": [], "add_only": True},
        "engines": [{"name": "lean4-proof+correspondence", "path": "/verif/harness/vcheck.py",
                     "serves_properties": sorted(CHECKS), "kind_free_text": "Lean 4 theorems about executable models (lean/), models tied to /repo by regenerated facts and in-process differential correspondence"}],
        "checks": checks,
        "not_applicable": na,
        "notes": "Every check: regenerate lean/Generated from /repo, lake build, axiom audit, corpus + known-finding witnesses, correspondence, Spec oracle on real traces. known_findings.json is read-only at run time.",
    }
    json.dump(man, open(os.path.join(VERIF, "MANIFEST.json"), "w"), indent=1)
    print("checks:", [c["property_id"] for c in checks], "na:", len(na))

if __name__ == "__main__":
    main()

"""Generated facts for the VRU clustering model (C18): vam_constants.py -> lean/Generated/VamConstants.lean.

Times are written in integer milliseconds (the source has seconds as floats for Table 15 and ms for Table 16);
a value that is not a whole number of milliseconds is a generator failure (broken obligation), not silently rounded.
The numeric codes of the leave/break-up reasons are read from the repo's ASN.1 module text and cross-checked
against the Python enums of vru_clustering.py.
"""
from __future__ import annotations

import re
from fractions import Fraction

import gen_lean


def _ms(seconds) -> int:
    fr = Fraction(seconds) * 1000
    # vam_constants uses decimal literals (3.0, 0.5): exact in binary; anything else must still be whole ms
    if fr.denominator != 1:
        fr = Fraction(str(seconds)) * 1000
    if fr.denominator != 1 or fr < 0:
        raise ValueError(f"constant {seconds!r} s is not a whole number of milliseconds")
    return int(fr)


def _nat(v) -> int:
    if isinstance(v, bool) or int(v) != v or v < 0:
        raise ValueError(f"constant {v!r} is not a natural number")
    return int(v)


def asn1_enum(name):
    """{identifier: number} of `name ::= ENUMERATED {...}` in vam_asn1.py"""
    txt = gen_lean.src("facilities/vru_awareness_service/vam_asn1.py")
    m = re.search(r"\b" + re.escape(name) + r"\s*::=\s*ENUMERATED\s*\{(.*?)\}", txt, re.S)
    if not m:
        raise ValueError(f"ASN.1 ENUMERATED {name} not found")
    return {k: int(v) for k, v in re.findall(r"([A-Za-z][A-Za-z0-9-]*)\s*\(\s*(\d+)\s*\)", m.group(1))}


def reason_codes():
    from flexstack.facilities.vru_awareness_service import vru_clustering as vc
    leave_asn, brk_asn = asn1_enum("ClusterLeaveReason"), asn1_enum("ClusterBreakupReason")
    leave = {e.name: leave_asn[e.value] for e in vc.ClusterLeaveReason}      # KeyError -> generator failure
    brk = {e.name: brk_asn[e.value] for e in vc.ClusterBreakupReason}
    return leave, brk, leave_asn, brk_asn


@gen_lean.register(props=["C18"])
def gen_vam_constants():
    from flexstack.facilities.vru_awareness_service import vam_constants as c
    leave, brk, _, _ = reason_codes()
    body = "namespace Generated.VamConstants\n"
    body += "-- times in milliseconds\n"
    for lean, val in (
        ("tGenVamMin", _nat(c.T_GENVAMMIN)), ("tGenVamMax", _nat(c.T_GENVAMMAX)),
        ("timeClusterUniquenessThreshold", _ms(c.TIME_CLUSTER_UNIQUENESS_THRESHOLD)),
        ("timeClusterBreakupWarning", _ms(c.TIME_CLUSTER_BREAKUP_WARNING)),
        ("timeClusterJoinNotification", _ms(c.TIME_CLUSTER_JOIN_NOTIFICATION)),
        ("timeClusterJoinSuccess", _ms(c.TIME_CLUSTER_JOIN_SUCCESS)),
        ("timeClusterContinuity", _ms(c.TIME_CLUSTER_CONTINUITY)),
        ("timeClusterLeaveNotification", _ms(c.TIME_CLUSTER_LEAVE_NOTIFICATION)),
    ):
        body += f"def {lean} : Nat := {val}\n"
    body += "-- counts / metres\n"
    for lean, val in (("numCreateCluster", _nat(c.NUM_CREATE_CLUSTER)), ("maxClusterDistance", _nat(c.MAX_CLUSTER_DISTANCE)),
                      ("minClusterSize", _nat(c.MIN_CLUSTER_SIZE)), ("maxClusterSize", _nat(c.MAX_CLUSTER_SIZE))):
        body += f"def {lean} : Nat := {val}\n"
    body += "-- ASN.1 numbers of the reasons used by the state machine\n"
    for lean, key in (("leaveNotProvided", "NOT_PROVIDED"), ("leaveLeaderLost", "CLUSTER_LEADER_LOST"),
                      ("leaveDisbandedByLeader", "CLUSTER_DISBANDED_BY_LEADER"), ("leaveCancelledJoin", "CANCELLED_JOIN"),
                      ("leaveFailedJoin", "FAILED_JOIN")):
        body += f"def {lean} : Nat := {leave[key]}\n"
    body += f"def breakupNotProvided : Nat := {brk['NOT_PROVIDED']}\n"
    body += f"def breakupCpm : Nat := {brk['RECEPTION_OF_CPM_CONTAINING_CLUSTER']}\n"
    body += "end Generated.VamConstants\n"
    gen_lean.write_if_changed("VamConstants.lean", body)


# ------------------------------------------------------------------------------------------------ lock discipline
# Structural facts about VBSClusteringManager read by an `ast` pass (nothing imported or executed):
# the model treats every public method as ONE atomic transition; that is justified only while the whole body of
# every public method that touches the manager's state is one `with self._lock:` block (an RLock: public methods
# call each other) and the private helpers ("must be called with lock held") are never called outside such a block.
# Props/C18.lean discharges these by `decide` on the generated list, so removing / moving a `with self._lock`
# (or adding an unlocked public mutator) re-opens a proof obligation.

CLUSTERING_SRC = "facilities/vru_awareness_service/vru_clustering.py"
CLUSTERING_CLASS = "VBSClusteringManager"
_MUTATING_CALLS = {"add", "discard", "remove", "pop", "append", "clear", "update", "setdefault", "popitem", "extend", "insert"}


def _is_self_attr(node, name=None):
    import ast
    return (isinstance(node, ast.Attribute) and isinstance(node.value, ast.Name) and node.value.id == "self"
            and (name is None or node.attr == name))


def _is_lock_with(node):
    import ast
    return isinstance(node, ast.With) and any(_is_self_attr(it.context_expr, "_lock") for it in node.items)


def lock_facts():
    """[{name, public, touches, mutates, locked}], [(caller, callee)] unlocked calls of private helpers, reentrant flag"""
    import ast
    tree = ast.parse(gen_lean.src(CLUSTERING_SRC))
    cls = next((n for n in tree.body if isinstance(n, ast.ClassDef) and n.name == CLUSTERING_CLASS), None)
    if cls is None:
        raise ValueError(f"class {CLUSTERING_CLASS} not found")
    funcs = [n for n in cls.body if isinstance(n, (ast.FunctionDef, ast.AsyncFunctionDef))]
    static = {f.name for f in funcs if any(isinstance(d, ast.Name) and d.id == "staticmethod" for d in f.decorator_list)}
    private = {f.name for f in funcs if f.name.startswith("_") and not f.name.startswith("__")} - static
    reentrant = None
    for f in funcs:
        if f.name == "__init__":
            for st in ast.walk(f):
                if isinstance(st, ast.Assign) and any(_is_self_attr(t, "_lock") for t in st.targets) and isinstance(st.value, ast.Call):
                    fn = st.value.func
                    nm = fn.attr if isinstance(fn, ast.Attribute) else getattr(fn, "id", None)
                    reentrant = {"RLock": True, "Lock": False}.get(nm)
    if reentrant is None:
        raise ValueError("self._lock = threading.RLock()/Lock() not found in __init__")
    methods, unlocked_calls = [], []
    for f in funcs:
        if f.name == "__init__" or f.name in static:
            continue
        body = list(f.body)
        if body and isinstance(body[0], ast.Expr) and isinstance(getattr(body[0], "value", None), ast.Constant) \
                and isinstance(body[0].value.value, str):
            body = body[1:]
        locked = len(body) == 1 and _is_lock_with(body[0])
        touches = mutates = False
        calls = set()

        def visit(node, under):
            nonlocal touches, mutates
            if _is_lock_with(node):
                under = True
            if _is_self_attr(node) and node.attr.startswith("_") and node.attr not in ("_lock",) and node.attr not in private:
                touches = True
                if isinstance(node.ctx, (ast.Store, ast.Del)):
                    mutates = True
            if isinstance(node, (ast.Subscript,)) and isinstance(node.ctx, (ast.Store, ast.Del)) and _is_self_attr(node.value):
                mutates = True
            if isinstance(node, ast.AugAssign) and _is_self_attr(node.target):
                mutates = True
            if isinstance(node, ast.Call) and isinstance(node.func, ast.Attribute):
                fn = node.func
                if _is_self_attr(fn) and fn.attr in private:
                    touches = True                    # private helpers work on the state
                    calls.add(fn.attr)
                    if not under and not f.name.startswith("_"):
                        unlocked_calls.append((f.name, fn.attr))
                if fn.attr in _MUTATING_CALLS and (_is_self_attr(fn.value) or
                                                   (isinstance(fn.value, ast.Attribute) and _is_self_attr(fn.value.value))):
                    mutates = True
            if isinstance(node, (ast.Attribute,)) and isinstance(node.ctx, ast.Store) and isinstance(node.value, ast.Attribute) \
                    and _is_self_attr(node.value):
                mutates = True                         # self._cluster.breakup_started = ...
            for ch in ast.iter_child_nodes(node):
                visit(ch, under)
        for st in f.body:
            visit(st, False)
        methods.append({"name": f.name, "public": not f.name.startswith("_"), "touches": touches, "mutates": mutates,
                        "locked": locked, "calls": calls})
    changed = True                                     # a method mutates if a helper it calls does
    by_name = {m["name"]: m for m in methods}
    while changed:
        changed = False
        for m in methods:
            if not m["mutates"] and any(by_name[c]["mutates"] for c in m["calls"] if c in by_name):
                m["mutates"] = changed = True
    return methods, unlocked_calls, reentrant


@gen_lean.register(props=["C18"])
def gen_vru_locks():
    methods, unlocked_calls, reentrant = lock_facts()
    b = lambda v: "true" if v else "false"
    body = "namespace Generated.VruLocks\n"
    body += "/-- a method of VBSClusteringManager: does it read / write the manager's state, is its whole body one\n"
    body += "`with self._lock:` block -/\n"
    body += "structure Method where\n  name : String\n  isPublic : Bool\n  touchesState : Bool\n  mutates : Bool\n  underLock : Bool\n"
    body += "  deriving DecidableEq, Repr\n"
    body += "def methods : List Method := [\n"
    body += ",\n".join(f'  ⟨"{m["name"]}", {b(m["public"])}, {b(m["touches"])}, {b(m["mutates"])}, {b(m["locked"])}⟩' for m in methods)
    body += "]\n"
    body += "/-- calls of a private helper from a public method outside `with self._lock:` (caller, callee) -/\n"
    body += "def unlockedHelperCalls : List (String × String) := [" + ", ".join(f'("{a}", "{c}")' for a, c in unlocked_calls) + "]\n"
    body += f"/-- `self._lock` is an RLock (public methods call public methods) -/\ndef lockReentrant : Bool := {b(reentrant)}\n"
    body += "end Generated.VruLocks\n"
    gen_lean.write_if_changed("VruLocks.lean", body)


# ------------------------------------------------------------------------------------------------ ENUMERATED domains
# Round 4.  What a received VAM can contain is defined by the ASN.1 module, not by the Python enums of
# vru_clustering.py: every ENUMERATED field (and every CHOICE / named BIT STRING) reachable from the `VAM` type is
# re-read from the repository's ASN.1 text on every run (asn1tools parser, nothing of the state machine is executed).
# The harness (props/c18.py `enum_sweep`) delivers every value of every such field through the real coder; the
# theorem side gets `Generated/VamEnums.lean`: the complete reason tables and the conversions of received data into a
# Python Enum that the receive path performs (ast pass), with the ASN.1 values each of those enums lacks.

VAM_ASN_SRC = "facilities/vru_awareness_service/vam_asn1.py"


class VamAsn:
    """type tree of the VAM ASN.1 module; paths: member name (SEQUENCE), '|alt' (CHOICE alternative), '#0' (first
    element of a SEQUENCE OF)"""
    _inst = None

    def __init__(self):
        import ast
        import asn1tools
        tree = ast.parse(gen_lean.src(VAM_ASN_SRC))
        text = None
        for n in tree.body:
            if isinstance(n, ast.Assign) and any(isinstance(t, ast.Name) and t.id == "VAM_ASN1_DESCRIPTIONS" for t in n.targets):
                text = ast.literal_eval(n.value)
        if not isinstance(text, str):
            raise ValueError("VAM_ASN1_DESCRIPTIONS (string literal) not found in vam_asn1.py")
        spec = asn1tools.parse_string(text)
        mods = [m for m in spec.values() if "VAM" in m.get("types", {})]
        if len(mods) != 1:
            raise ValueError("ASN.1 module defining the VAM type not found")
        self.types = mods[0]["types"]

    @classmethod
    def get(cls):
        if cls._inst is None:
            cls._inst = cls()
        return cls._inst

    def deref(self, d):
        seen = 0
        while d["type"] in self.types:
            d = self.types[d["type"]]
            seen += 1
            if seen > 50:
                raise ValueError("ASN.1 type reference cycle")
        return d

    @staticmethod
    def members(t):
        return [m for m in t["members"] if isinstance(m, dict)]

    @staticmethod
    def enum_values(t):
        return [(v[0], v[1]) for v in t["values"] if isinstance(v, (tuple, list))]

    def fields(self, root="VAM"):
        """[(path, type name, kind, domain)]: kind 'enum' -> [(identifier, number)], 'choice' -> [alternative names],
        'bits' -> (number of bits, number of named bits)"""
        out = []

        def walk(d, path, stack):
            name = d["type"] if d["type"] in self.types else None
            if name is not None:
                if name in stack:
                    return
                stack = stack + [name]
            t = self.deref(d)
            k = t["type"]
            if k == "ENUMERATED":
                out.append((tuple(path), name or "ENUMERATED", "enum", self.enum_values(t)))
            elif k == "BIT STRING" and t.get("named-bits") and isinstance((t.get("size") or [None])[0], int):
                out.append((tuple(path), name or "BIT STRING", "bits", (t["size"][0], len(t["named-bits"]))))
            elif k in ("SEQUENCE", "SET"):
                for m in self.members(t):
                    walk(m, path + [m["name"]], stack)
            elif k == "CHOICE":
                out.append((tuple(path), name or "CHOICE", "choice", [m["name"] for m in self.members(t)]))
                for m in self.members(t):
                    walk(m, path + ["|" + m["name"]], stack)
            elif k in ("SEQUENCE OF", "SET OF"):
                walk(t["element"], path + ["#0"], stack)
        walk({"type": root}, [], [])
        return out

    @staticmethod
    def _lo(t, key, default=0):
        r = t.get(key)
        if not r:
            return default
        x = r[0]
        if isinstance(x, (tuple, list)):
            x = x[0]
        return x if isinstance(x, int) else default

    def minimal(self, d, path=(), value=None):
        """smallest instance of the type; along `path` optional members are present / the alternative is selected and
        the leaf is `value`"""
        t = self.deref(d)
        k = t["type"]
        if not path and value is not None:
            return value
        if k in ("SEQUENCE", "SET"):
            out = {}
            for m in self.members(t):
                on = bool(path) and path[0] == m["name"]
                if on or not (m.get("optional") or "default" in m):
                    out[m["name"]] = self.minimal(m, path[1:] if on else (), value if on else None)
            return out
        if k == "CHOICE":
            ms = self.members(t)
            m = next((x for x in ms if path and path[0] == "|" + x["name"]), None)
            if m is None:
                return (ms[0]["name"], self.minimal(ms[0]))
            return (m["name"], self.minimal(m, path[1:], value))
        if k in ("SEQUENCE OF", "SET OF"):
            n = max(self._lo(t, "size"), 1 if path else 0)
            return [self.minimal(t["element"], path[1:] if (i == 0 and path) else (), value if (i == 0 and path) else None)
                    for i in range(n)]
        if k == "ENUMERATED":
            return self.enum_values(t)[0][0]
        if k == "INTEGER":
            return self._lo(t, "restricted-to")
        if k == "BOOLEAN":
            return False
        if k == "NULL":
            return None
        if k == "BIT STRING":
            n = self._lo(t, "size")
            return (bytes((n + 7) // 8), n)
        if k == "OCTET STRING":
            return bytes(self._lo(t, "size"))
        if k.endswith("String"):
            return "a" * self._lo(t, "size")
        raise ValueError(f"VamAsn.minimal: unsupported ASN.1 type {k}")

    def graft(self, node, d, path, value):
        """`node` (an instance of type `d`) with the leaf at `path` replaced by `value`; missing parts are created"""
        if not path:
            return value
        t = self.deref(d)
        k = t["type"]
        if k in ("SEQUENCE", "SET"):
            m = next((x for x in self.members(t) if x["name"] == path[0]), None)
            if m is None or not isinstance(node, dict):
                raise ValueError(f"VamAsn.graft: no member {path[0]}")
            out = dict(node)
            out[path[0]] = self.graft(node[path[0]], m, path[1:], value) if path[0] in node else self.minimal(m, path[1:], value)
            return out
        if k == "CHOICE":
            m = next((x for x in self.members(t) if path[0] == "|" + x["name"]), None)
            if m is None:
                raise ValueError(f"VamAsn.graft: no alternative {path[0]}")
            if len(path) == 1 and value is None:        # "this alternative", whatever its content
                return node if (isinstance(node, tuple) and node[0] == m["name"]) else (m["name"], self.minimal(m))
            if isinstance(node, tuple) and node[0] == m["name"]:
                return (m["name"], self.graft(node[1], m, path[1:], value))
            return (m["name"], self.minimal(m, path[1:], value))
        if k in ("SEQUENCE OF", "SET OF"):
            lst = list(node) if node else [self.minimal(t["element"])]
            lst[0] = self.graft(lst[0], t["element"], path[1:], value)
            return lst
        raise ValueError(f"VamAsn.graft: path {path} continues below a {k}")


def rx_enum_conversions():
    """conversions of (received) data into a Python Enum inside the receive path of VBSClusteringManager: the methods
    reachable from `on_received_vam` through `self.<method>`; a conversion is a call `EnumClass(<arg>)` or a lookup
    `EnumClass[<key>]` of an Enum subclass defined in vru_clustering.py.  Returns [(enum class, [ASN.1 identifiers of
    the type of the same name that the Python enum does not have])] - `<no ASN.1 type of this name>` when there is no
    namesake (then every value is foreign to it)."""
    import ast
    tree = ast.parse(gen_lean.src(CLUSTERING_SRC))
    enums = {}
    for n in tree.body:
        if isinstance(n, ast.ClassDef) and any((isinstance(b, ast.Name) and b.id in ("Enum", "IntEnum", "StrEnum"))
                                               or (isinstance(b, ast.Attribute) and b.attr in ("Enum", "IntEnum", "StrEnum")) for b in n.bases):
            vals = []
            for st in n.body:
                if isinstance(st, ast.Assign) and isinstance(st.value, ast.Constant):
                    vals.append(st.value.value)
            enums[n.name] = vals
    cls = next((n for n in tree.body if isinstance(n, ast.ClassDef) and n.name == CLUSTERING_CLASS), None)
    if cls is None:
        raise ValueError(f"class {CLUSTERING_CLASS} not found")
    fns = {f.name: f for f in cls.body if isinstance(f, (ast.FunctionDef, ast.AsyncFunctionDef))}
    if "on_received_vam" not in fns:
        raise ValueError("VBSClusteringManager.on_received_vam not found")
    # only what is reachable while a VAM is being processed: on_received_vam and the private helpers it calls
    reach, todo = [], ["on_received_vam"]
    while todo:
        nm = todo.pop(0)
        if nm in reach:
            continue
        reach.append(nm)
        for n in ast.walk(fns[nm]):
            if isinstance(n, ast.Call) and _is_self_attr(n.func) and n.func.attr in fns:
                todo.append(n.func.attr)
    asn = VamAsn.get()
    out = []
    for nm in reach:
        for n in ast.walk(fns[nm]):
            target = None
            def enum_name(x):
                if isinstance(x, ast.Name) and x.id in enums:
                    return x.id
                if isinstance(x, ast.Attribute) and x.attr in enums:      # `module.ClusterBreakupReason`
                    return x.attr
                return None
            if isinstance(n, ast.Call) and (n.args or n.keywords) and enum_name(n.func):
                target = enum_name(n.func)
            elif isinstance(n, ast.Subscript) and enum_name(n.value):
                target = enum_name(n.value)
            if target is None:
                continue
            if target in asn.types and asn.deref({"type": target})["type"] == "ENUMERATED":
                have = set(enums[target])
                missing = [v for v, _ in asn.enum_values(asn.deref({"type": target})) if v not in have]
            else:
                missing = ["<no ASN.1 type of this name>"]
            out.append((target, nm, missing))
    return out, enums


def rx_choice_subscripts(alt_names=None):
    """round 5: subscripts `<expr>["<alt>"]` (read) in the receive path of VBSClusteringManager whose constant key is the
    name of an alternative of a CHOICE reachable from the VAM type.  A decoded CHOICE holds exactly ONE alternative, so
    such a subscript raises KeyError for every other (legal) alternative unless the very same key was tested first.
    A subscript is GUARDED when an enclosing `if` / `elif` / conditional expression / `while` test or an earlier operand
    of an enclosing `and` contains `"<alt>" in <x>` or `<x> == "<alt>"`, or when an earlier statement of an enclosing
    block is `if <"<alt>" not in <x> | <x> != "<alt>">:` ending in return / continue / break / raise.
    Returns ([(method, alt)] unguarded, number of guarded ones)."""
    import ast
    tree = ast.parse(gen_lean.src(CLUSTERING_SRC))
    cls = next((n for n in tree.body if isinstance(n, ast.ClassDef) and n.name == CLUSTERING_CLASS), None)
    if cls is None:
        raise ValueError(f"class {CLUSTERING_CLASS} not found")
    fns = {f.name: f for f in cls.body if isinstance(f, (ast.FunctionDef, ast.AsyncFunctionDef))}
    if "on_received_vam" not in fns:
        raise ValueError("VBSClusteringManager.on_received_vam not found")
    reach, todo = [], ["on_received_vam"]
    while todo:
        nm = todo.pop(0)
        if nm in reach:
            continue
        reach.append(nm)
        for n in ast.walk(fns[nm]):
            if isinstance(n, ast.Call) and _is_self_attr(n.func) and n.func.attr in fns:
                todo.append(n.func.attr)
    if alt_names is None:
        alt_names = {a for _p, _n, kind, dom in VamAsn.get().fields() if kind == "choice" for a in dom}

    def tests(expr, key, positive):
        """does `expr` contain the membership / equality test of `key` (positive) or its negation?"""
        for c in ast.walk(expr):
            if not isinstance(c, ast.Compare) or len(c.ops) != 1:
                continue
            l, op, r = c.left, c.ops[0], c.comparators[0]
            isk = lambda x: isinstance(x, ast.Constant) and x.value == key      # noqa: E731
            if positive and ((isinstance(op, ast.In) and isk(l)) or (isinstance(op, ast.Eq) and (isk(l) or isk(r)))):
                return True
            if not positive and ((isinstance(op, ast.NotIn) and isk(l)) or (isinstance(op, ast.NotEq) and (isk(l) or isk(r)))):
                return True
        return False

    def leaves(stmts):
        return bool(stmts) and isinstance(stmts[-1], (ast.Return, ast.Continue, ast.Break, ast.Raise))

    unguarded, guarded = [], 0
    for nm in reach:
        parent = {}
        for a in ast.walk(fns[nm]):
            for c in ast.iter_child_nodes(a):
                parent[id(c)] = a
        for n in ast.walk(fns[nm]):
            if not (isinstance(n, ast.Subscript) and isinstance(n.ctx, ast.Load) and isinstance(n.slice, ast.Constant)
                    and isinstance(n.slice.value, str) and n.slice.value in alt_names):
                continue
            key, ok, c = n.slice.value, False, n
            while id(c) in parent and not ok:
                a = parent[id(c)]
                if isinstance(a, (ast.If, ast.While)) and any(c is x for x in a.body):
                    ok = tests(a.test, key, True)
                elif isinstance(a, ast.IfExp) and c is a.body:
                    ok = tests(a.test, key, True)
                elif isinstance(a, ast.BoolOp) and isinstance(a.op, ast.And):
                    idx = next(i for i, v in enumerate(a.values) if v is c)
                    ok = any(tests(v, key, True) for v in a.values[:idx])
                if not ok:
                    for field in ("body", "orelse", "finalbody"):
                        blk = getattr(a, field, None)
                        if isinstance(blk, list) and any(c is x for x in blk):
                            for st in blk[:next(i for i, x in enumerate(blk) if x is c)]:
                                if isinstance(st, ast.If) and tests(st.test, key, False) and leaves(st.body):
                                    ok = True
                c = a
            if ok:
                guarded += 1
            else:
                unguarded.append((nm, key))
    return unguarded, guarded


@gen_lean.register(props=["C18"])
def gen_vam_enums():
    asn = VamAsn.get()
    conv, enums = rx_enum_conversions()
    q = lambda s: '"' + str(s).replace('"', "'") + '"'
    body = "namespace Generated.VamEnums\n"
    for lean, name in (("breakupReasons", "ClusterBreakupReason"), ("leaveReasons", "ClusterLeaveReason")):
        vals = asn.enum_values(asn.deref({"type": name}))
        body += f"/-- every value of `{name}` in the ASN.1 module of the repository: (identifier, number) -/\n"
        body += f"def {lean} : List (String × Nat) := [" + ", ".join(f"({q(v)}, {n})" for v, n in vals) + "]\n"
        body += f"/-- the values of the Python enum `{name}` of vru_clustering.py -/\n"
        body += f"def py{lean[0].upper()}{lean[1:]} : List String := [" + ", ".join(q(v) for v in enums.get(name, [])) + "]\n"
    body += ("/-- conversions of received data into a Python Enum in the receive path (methods reachable from\n"
             "`on_received_vam`): (enum class, method, identifiers of the ASN.1 type of that name the Python enum lacks) -/\n")
    body += "def rxEnumConversions : List (String × String × List String) := [" + ", ".join(
        f"({q(c)}, {q(m)}, [" + ", ".join(q(x) for x in miss) + "])" for c, m, miss in conv) + "]\n"
    body += "/-- ENUMERATED / CHOICE / named BIT STRING fields reachable from the VAM type: (path, type, number of values) -/\n"
    rows = []
    for path, name, kind, dom in asn.fields():
        n = len(dom) if kind in ("enum", "choice") else 2 ** dom[0] if dom[0] <= 4 else dom[0] + 2
        rows.append(f"({q('.'.join(path))}, {q(name)}, {n})")
    body += "def enumeratedFields : List (String × String × Nat) := [\n  " + ",\n  ".join(rows) + "]\n"
    shape = next((dom for path, _n, kind, dom in asn.fields() if kind == "choice" and path[-1] == "clusterBoundingBoxShape"), [])
    body += "/-- the alternatives of the `clusterBoundingBoxShape` CHOICE of a cluster information container (ASN.1 module) -/\n"
    body += "def boundingBoxShapes : List String := [" + ", ".join(q(a) for a in shape) + "]\n"
    ung, ngu = rx_choice_subscripts()
    body += ("/-- receive path (methods reachable from `on_received_vam`): subscripts `<x>[\"<alt>\"]` by the name of a CHOICE\n"
             "alternative of the VAM that are NOT preceded by a test of that very key (`\"<alt>\" in <x>` / `== \"<alt>\"`):\n"
             "(method, alternative).  Such a subscript raises KeyError for every other alternative the decoder delivers. -/\n")
    body += "def rxUnguardedChoiceSubscripts : List (String × String) := [" + ", ".join(f"({q(m)}, {q(k)})" for m, k in ung) + "]\n"
    body += f"/-- ... and the number of such subscripts that ARE guarded -/\ndef rxGuardedChoiceSubscripts : Nat := {ngu}\n"
    body += "end Generated.VamEnums\n"
    gen_lean.write_if_changed("VamEnums.lean", body)

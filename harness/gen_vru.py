"""Generated facts for the VRU clustering model (C18): vam_constants.py -> lean/Generated/VamConstants.lean.

Times are written in integer milliseconds (the source has seconds as floats for Table 15 and ms for Table 16);
a value that is not a whole number of milliseconds is a generator failure (broken obligation), not silently rounded.
The numeric codes of the leave/break-up reasons are read from the repo's ASN.1 module text and cross-checked
against the Python enums of vru_clustering.py.
"""
from __future__ import annotations

import re
from fractions import Fraction

import gen_lean


def _ms(seconds) -> int:
    fr = Fraction(seconds) * 1000
    # vam_constants uses decimal literals (3.0, 0.5): exact in binary; anything else must still be whole ms
    if fr.denominator != 1:
        fr = Fraction(str(seconds)) * 1000
    if fr.denominator != 1 or fr < 0:
        raise ValueError(f"constant {seconds!r} s is not a whole number of milliseconds")
    return int(fr)


def _nat(v) -> int:
    if isinstance(v, bool) or int(v) != v or v < 0:
        raise ValueError(f"constant {v!r} is not a natural number")
    return int(v)


def asn1_enum(name):
    """{identifier: number} of `name ::= ENUMERATED {...}` in vam_asn1.py"""
    txt = gen_lean.src("facilities/vru_awareness_service/vam_asn1.py")
    m = re.search(r"\b" + re.escape(name) + r"\s*::=\s*ENUMERATED\s*\{(.*?)\}", txt, re.S)
    if not m:
        raise ValueError(f"ASN.1 ENUMERATED {name} not found")
    return {k: int(v) for k, v in re.findall(r"([A-Za-z][A-Za-z0-9-]*)\s*\(\s*(\d+)\s*\)", m.group(1))}


def reason_codes():
    from flexstack.facilities.vru_awareness_service import vru_clustering as vc
    leave_asn, brk_asn = asn1_enum("ClusterLeaveReason"), asn1_enum("ClusterBreakupReason")
    leave = {e.name: leave_asn[e.value] for e in vc.ClusterLeaveReason}      # KeyError -> generator failure
    brk = {e.name: brk_asn[e.value] for e in vc.ClusterBreakupReason}
    return leave, brk, leave_asn, brk_asn


@gen_lean.register(props=["C18"])
def gen_vam_constants():
    from flexstack.facilities.vru_awareness_service import vam_constants as c
    leave, brk, _, _ = reason_codes()
    body = "namespace Generated.VamConstants\n"
    body += "-- times in milliseconds\n"
    for lean, val in (
        ("tGenVamMin", _nat(c.T_GENVAMMIN)), ("tGenVamMax", _nat(c.T_GENVAMMAX)),
        ("timeClusterUniquenessThreshold", _ms(c.TIME_CLUSTER_UNIQUENESS_THRESHOLD)),
        ("timeClusterBreakupWarning", _ms(c.TIME_CLUSTER_BREAKUP_WARNING)),
        ("timeClusterJoinNotification", _ms(c.TIME_CLUSTER_JOIN_NOTIFICATION)),
        ("timeClusterJoinSuccess", _ms(c.TIME_CLUSTER_JOIN_SUCCESS)),
        ("timeClusterContinuity", _ms(c.TIME_CLUSTER_CONTINUITY)),
        ("timeClusterLeaveNotification", _ms(c.TIME_CLUSTER_LEAVE_NOTIFICATION)),
    ):
        body += f"def {lean} : Nat := {val}\n"
    body += "-- counts / metres\n"
    for lean, val in (("numCreateCluster", _nat(c.NUM_CREATE_CLUSTER)), ("maxClusterDistance", _nat(c.MAX_CLUSTER_DISTANCE)),
                      ("minClusterSize", _nat(c.MIN_CLUSTER_SIZE)), ("maxClusterSize", _nat(c.MAX_CLUSTER_SIZE))):
        body += f"def {lean} : Nat := {val}\n"
    body += "-- ASN.1 numbers of the reasons used by the state machine\n"
    for lean, key in (("leaveNotProvided", "NOT_PROVIDED"), ("leaveLeaderLost", "CLUSTER_LEADER_LOST"),
                      ("leaveDisbandedByLeader", "CLUSTER_DISBANDED_BY_LEADER"), ("leaveCancelledJoin", "CANCELLED_JOIN"),
                      ("leaveFailedJoin", "FAILED_JOIN")):
        body += f"def {lean} : Nat := {leave[key]}\n"
    body += f"def breakupNotProvided : Nat := {brk['NOT_PROVIDED']}\n"
    body += f"def breakupCpm : Nat := {brk['RECEPTION_OF_CPM_CONTAINING_CLUSTER']}\n"
    body += "end Generated.VamConstants\n"
    gen_lean.write_if_changed("VamConstants.lean", body)

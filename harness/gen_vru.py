"""Generated facts for the VRU clustering model (C18): vam_constants.py -> lean/Generated/VamConstants.lean.

Times are written in integer milliseconds (the source has seconds as floats for Table 15 and ms for Table 16);
a value that is not a whole number of milliseconds is a generator failure (broken obligation), not silently rounded.
The numeric codes of the leave/break-up reasons are read from the repo's ASN.1 module text and cross-checked
against the Python enums of vru_clustering.py.
"""
from __future__ import annotations

import re
from fractions import Fraction

import gen_lean


def _ms(seconds) -> int:
    fr = Fraction(seconds) * 1000
    # vam_constants uses decimal literals (3.0, 0.5): exact in binary; anything else must still be whole ms
    if fr.denominator != 1:
        fr = Fraction(str(seconds)) * 1000
    if fr.denominator != 1 or fr < 0:
        raise ValueError(f"constant {seconds!r} s is not a whole number of milliseconds")
    return int(fr)


def _nat(v) -> int:
    if isinstance(v, bool) or int(v) != v or v < 0:
        raise ValueError(f"constant {v!r} is not a natural number")
    return int(v)


def asn1_enum(name):
    """{identifier: number} of `name ::= ENUMERATED {...}` in vam_asn1.py"""
    txt = gen_lean.src("facilities/vru_awareness_service/vam_asn1.py")
    m = re.search(r"\b" + re.escape(name) + r"\s*::=\s*ENUMERATED\s*\{(.*?)\}", txt, re.S)
    if not m:
        raise ValueError(f"ASN.1 ENUMERATED {name} not found")
    return {k: int(v) for k, v in re.findall(r"([A-Za-z][A-Za-z0-9-]*)\s*\(\s*(\d+)\s*\)", m.group(1))}


def reason_codes():
    from flexstack.facilities.vru_awareness_service import vru_clustering as vc
    leave_asn, brk_asn = asn1_enum("ClusterLeaveReason"), asn1_enum("ClusterBreakupReason")
    leave = {e.name: leave_asn[e.value] for e in vc.ClusterLeaveReason}      # KeyError -> generator failure
    brk = {e.name: brk_asn[e.value] for e in vc.ClusterBreakupReason}
    return leave, brk, leave_asn, brk_asn


@gen_lean.register(props=["C18"])
def gen_vam_constants():
    from flexstack.facilities.vru_awareness_service import vam_constants as c
    leave, brk, _, _ = reason_codes()
    body = "namespace Generated.VamConstants\n"
    body += "-- times in milliseconds\n"
    for lean, val in (
        ("tGenVamMin", _nat(c.T_GENVAMMIN)), ("tGenVamMax", _nat(c.T_GENVAMMAX)),
        ("timeClusterUniquenessThreshold", _ms(c.TIME_CLUSTER_UNIQUENESS_THRESHOLD)),
        ("timeClusterBreakupWarning", _ms(c.TIME_CLUSTER_BREAKUP_WARNING)),
        ("timeClusterJoinNotification", _ms(c.TIME_CLUSTER_JOIN_NOTIFICATION)),
        ("timeClusterJoinSuccess", _ms(c.TIME_CLUSTER_JOIN_SUCCESS)),
        ("timeClusterContinuity", _ms(c.TIME_CLUSTER_CONTINUITY)),
        ("timeClusterLeaveNotification", _ms(c.TIME_CLUSTER_LEAVE_NOTIFICATION)),
    ):
        body += f"def {lean} : Nat := {val}\n"
    body += "-- counts / metres\n"
    for lean, val in (("numCreateCluster", _nat(c.NUM_CREATE_CLUSTER)), ("maxClusterDistance", _nat(c.MAX_CLUSTER_DISTANCE)),
                      ("minClusterSize", _nat(c.MIN_CLUSTER_SIZE)), ("maxClusterSize", _nat(c.MAX_CLUSTER_SIZE))):
        body += f"def {lean} : Nat := {val}\n"
    body += "-- ASN.1 numbers of the reasons used by the state machine\n"
    for lean, key in (("leaveNotProvided", "NOT_PROVIDED"), ("leaveLeaderLost", "CLUSTER_LEADER_LOST"),
                      ("leaveDisbandedByLeader", "CLUSTER_DISBANDED_BY_LEADER"), ("leaveCancelledJoin", "CANCELLED_JOIN"),
                      ("leaveFailedJoin", "FAILED_JOIN")):
        body += f"def {lean} : Nat := {leave[key]}\n"
    body += f"def breakupNotProvided : Nat := {brk['NOT_PROVIDED']}\n"
    body += f"def breakupCpm : Nat := {brk['RECEPTION_OF_CPM_CONTAINING_CLUSTER']}\n"
    body += "end Generated.VamConstants\n"
    gen_lean.write_if_changed("VamConstants.lean", body)


# ------------------------------------------------------------------------------------------------ lock discipline
# Structural facts about VBSClusteringManager read by an `ast` pass (nothing imported or executed):
# the model treats every public method as ONE atomic transition; that is justified only while the whole body of
# every public method that touches the manager's state is one `with self._lock:` block (an RLock: public methods
# call each other) and the private helpers ("must be called with lock held") are never called outside such a block.
# Props/C18.lean discharges these by `decide` on the generated list, so removing / moving a `with self._lock`
# (or adding an unlocked public mutator) re-opens a proof obligation.

CLUSTERING_SRC = "facilities/vru_awareness_service/vru_clustering.py"
CLUSTERING_CLASS = "VBSClusteringManager"
_MUTATING_CALLS = {"add", "discard", "remove", "pop", "append", "clear", "update", "setdefault", "popitem", "extend", "insert"}


def _is_self_attr(node, name=None):
    import ast
    return (isinstance(node, ast.Attribute) and isinstance(node.value, ast.Name) and node.value.id == "self"
            and (name is None or node.attr == name))


def _is_lock_with(node):
    import ast
    return isinstance(node, ast.With) and any(_is_self_attr(it.context_expr, "_lock") for it in node.items)


def lock_facts():
    """[{name, public, touches, mutates, locked}], [(caller, callee)] unlocked calls of private helpers, reentrant flag"""
    import ast
    tree = ast.parse(gen_lean.src(CLUSTERING_SRC))
    cls = next((n for n in tree.body if isinstance(n, ast.ClassDef) and n.name == CLUSTERING_CLASS), None)
    if cls is None:
        raise ValueError(f"class {CLUSTERING_CLASS} not found")
    funcs = [n for n in cls.body if isinstance(n, (ast.FunctionDef, ast.AsyncFunctionDef))]
    static = {f.name for f in funcs if any(isinstance(d, ast.Name) and d.id == "staticmethod" for d in f.decorator_list)}
    private = {f.name for f in funcs if f.name.startswith("_") and not f.name.startswith("__")} - static
    reentrant = None
    for f in funcs:
        if f.name == "__init__":
            for st in ast.walk(f):
                if isinstance(st, ast.Assign) and any(_is_self_attr(t, "_lock") for t in st.targets) and isinstance(st.value, ast.Call):
                    fn = st.value.func
                    nm = fn.attr if isinstance(fn, ast.Attribute) else getattr(fn, "id", None)
                    reentrant = {"RLock": True, "Lock": False}.get(nm)
    if reentrant is None:
        raise ValueError("self._lock = threading.RLock()/Lock() not found in __init__")
    methods, unlocked_calls = [], []
    for f in funcs:
        if f.name == "__init__" or f.name in static:
            continue
        body = list(f.body)
        if body and isinstance(body[0], ast.Expr) and isinstance(getattr(body[0], "value", None), ast.Constant) \
                and isinstance(body[0].value.value, str):
            body = body[1:]
        locked = len(body) == 1 and _is_lock_with(body[0])
        touches = mutates = False
        calls = set()

        def visit(node, under):
            nonlocal touches, mutates
            if _is_lock_with(node):
                under = True
            if _is_self_attr(node) and node.attr.startswith("_") and node.attr not in ("_lock",) and node.attr not in private:
                touches = True
                if isinstance(node.ctx, (ast.Store, ast.Del)):
                    mutates = True
            if isinstance(node, (ast.Subscript,)) and isinstance(node.ctx, (ast.Store, ast.Del)) and _is_self_attr(node.value):
                mutates = True
            if isinstance(node, ast.AugAssign) and _is_self_attr(node.target):
                mutates = True
            if isinstance(node, ast.Call) and isinstance(node.func, ast.Attribute):
                fn = node.func
                if _is_self_attr(fn) and fn.attr in private:
                    touches = True                    # private helpers work on the state
                    calls.add(fn.attr)
                    if not under and not f.name.startswith("_"):
                        unlocked_calls.append((f.name, fn.attr))
                if fn.attr in _MUTATING_CALLS and (_is_self_attr(fn.value) or
                                                   (isinstance(fn.value, ast.Attribute) and _is_self_attr(fn.value.value))):
                    mutates = True
            if isinstance(node, (ast.Attribute,)) and isinstance(node.ctx, ast.Store) and isinstance(node.value, ast.Attribute) \
                    and _is_self_attr(node.value):
                mutates = True                         # self._cluster.breakup_started = ...
            for ch in ast.iter_child_nodes(node):
                visit(ch, under)
        for st in f.body:
            visit(st, False)
        methods.append({"name": f.name, "public": not f.name.startswith("_"), "touches": touches, "mutates": mutates,
                        "locked": locked, "calls": calls})
    changed = True                                     # a method mutates if a helper it calls does
    by_name = {m["name"]: m for m in methods}
    while changed:
        changed = False
        for m in methods:
            if not m["mutates"] and any(by_name[c]["mutates"] for c in m["calls"] if c in by_name):
                m["mutates"] = changed = True
    return methods, unlocked_calls, reentrant


@gen_lean.register(props=["C18"])
def gen_vru_locks():
    methods, unlocked_calls, reentrant = lock_facts()
    b = lambda v: "true" if v else "false"
    body = "namespace Generated.VruLocks\n"
    body += "/-- a method of VBSClusteringManager: does it read / write the manager's state, is its whole body one\n"
    body += "`with self._lock:` block -/\n"
    body += "structure Method where\n  name : String\n  isPublic : Bool\n  touchesState : Bool\n  mutates : Bool\n  underLock : Bool\n"
    body += "  deriving DecidableEq, Repr\n"
    body += "def methods : List Method := [\n"
    body += ",\n".join(f'  ⟨"{m["name"]}", {b(m["public"])}, {b(m["touches"])}, {b(m["mutates"])}, {b(m["locked"])}⟩' for m in methods)
    body += "]\n"
    body += "/-- calls of a private helper from a public method outside `with self._lock:` (caller, callee) -/\n"
    body += "def unlockedHelperCalls : List (String × String) := [" + ", ".join(f'("{a}", "{c}")' for a, c in unlocked_calls) + "]\n"
    body += f"/-- `self._lock` is an RLock (public methods call public methods) -/\ndef lockReentrant : Bool := {b(reentrant)}\n"
    body += "end Generated.VruLocks\n"
    gen_lean.write_if_changed("VruLocks.lean", body)

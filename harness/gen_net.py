"""Structural facts of the GeoNetworking router that the C01 model relies on (lean/Generated/NetFacts.lean).

An `ast` pass over src/flexstack/geonet/router.py (nothing is imported or executed):

* `gucQueueGuard present pending neighbour` - the guard of `Router.gn_data_request_guc` that sends a GeoUnicast
  request to the Location Service (start a lookup / queue behind the running one) instead of transmitting it,
  translated into a Lean Boolean function of three facts about the destination's location table entry:
  `present` (`de_entry is not None`), `pending` (`de_entry.ls_pending`), `neighbour` (`de_entry.is_neighbour`).
  Props/C01.lean proves by `decide` that it is `!present || pending` for all eight valuations and
  (`guc_request_follows_code_guard`) that the model's `request` takes its location-service branch exactly when the
  extracted guard says so - a relaxed / reordered guard re-opens the obligation.
* `snAccessesOutsideLock`, `snReturnsUnderLock`, `snStatements` - `Router.get_sequence_number`: number of accesses
  to `self.sequence_number` outside a `with self.sequence_number_lock:` block, whether every `return` of the method
  is inside such a block (or returns a local assigned only inside it), and the number of top-level statements
  (docstring excluded).  The model allocates a
  sequence number in one atomic step (`request`: `sn := s.sn + 1`); `sn_allocation_is_one_section` (Props/C01.lean)
  discharges `snAccessesOutsideLock = 0 ∧ snReturnsUnderLock = true` by `decide`, and `sn_alloc_distinct` is stated
  for the extracted shape (`snReturnsUnderLock`).

* `lsFlushTakesBuffer` (round 5) - `Router.gn_data_indicate_ls_reply`: the list whose requests are re-issued by the
  flush loop (`for req in <name>: self.gn_data_request_guc(req)`) is bound, inside a `with self._ls_lock:` block, to
  something read from `self._ls_packet_buffers` AND the same block removes the buffer from that dict (`.pop(...)` as
  the binding itself or as a later statement, or `del self._ls_packet_buffers[...]`).  The model's reply branch
  erases the lookup with its buffer (`erasePending`); `second_ls_reply_flushes_nothing` rests on it.
* `lean/Generated/Locks.lean` (generator of C15 / C16, harness/gen_locks.py) is regenerated for C01 too: Props/C01.lean
  discharges by `decide` that `LocationTable.refresh_table` is ONE `loc_t_lock` section that reads, filters and
  re-binds `loc_t` (and that the `new_*_packet` functions create and update an entry in one section).

Anything the translator does not understand raises (reported by vcheck as a broken obligation of C01).
"""
from __future__ import annotations

import ast

from gen_lean import register, write_if_changed, src

ROUTER = "geonet/router.py"
ENTRY_VARS = set()      # local names bound to `self.location_table.get_entry(<destination>)` in gn_data_request_guc
ATTRS = {"ls_pending": "pending", "is_neighbour": "neighbour"}


class Untranslatable(Exception):
    pass


def _method(tree, cls, name):
    for n in tree.body:
        if isinstance(n, ast.ClassDef) and n.name == cls:
            for f in n.body:
                if isinstance(f, ast.FunctionDef) and f.name == name:
                    return f
    raise Untranslatable(f"{cls}.{name} not found")


def _is_const(node, value):
    return isinstance(node, ast.Constant) and node.value is value


def guard_to_lean(node):
    """Boolean expression over the destination entry -> Lean Bool term over `present pending neighbour`"""
    if isinstance(node, ast.BoolOp):
        op = " && " if isinstance(node.op, ast.And) else " || "
        return "(" + op.join(guard_to_lean(v) for v in node.values) + ")"
    if isinstance(node, ast.UnaryOp) and isinstance(node.op, ast.Not):
        return "(!" + guard_to_lean(node.operand) + ")"
    if isinstance(node, ast.Compare) and len(node.ops) == 1:
        left, op, right = node.left, node.ops[0], node.comparators[0]
        if isinstance(left, ast.Name) and left.id in ENTRY_VARS and _is_const(right, None):
            if isinstance(op, ast.Is):
                return "(!present)"
            if isinstance(op, ast.IsNot):
                return "present"
        if isinstance(op, (ast.Is, ast.Eq, ast.IsNot, ast.NotEq)) and (_is_const(right, True) or _is_const(right, False)):
            inner = guard_to_lean(left)
            positive = isinstance(op, (ast.Is, ast.Eq)) == _is_const(right, True)
            return inner if positive else "(!" + inner + ")"
    if isinstance(node, ast.Attribute) and isinstance(node.value, ast.Name) and node.value.id in ENTRY_VARS \
            and node.attr in ATTRS:
        return ATTRS[node.attr]
    if isinstance(node, ast.Name) and node.id in ENTRY_VARS:
        return "present"
    raise Untranslatable("guard of gn_data_request_guc: " + ast.unparse(node))


def _calls(node, meth):
    return any(isinstance(c, ast.Call) and isinstance(c.func, ast.Attribute) and c.func.attr == meth
               for c in ast.walk(node))


def extract_guc_guard(tree):
    f = _method(tree, "Router", "gn_data_request_guc")
    ENTRY_VARS.clear()
    for st in ast.walk(f):       # the entry variable is found by what it is bound to, not by its name
        if isinstance(st, (ast.Assign, ast.AnnAssign)) and st.value is not None and _calls(st.value, "get_entry"):
            for t in (st.targets if isinstance(st, ast.Assign) else [st.target]):
                if isinstance(t, ast.Name):
                    ENTRY_VARS.add(t.id)
    if not ENTRY_VARS:
        raise Untranslatable("gn_data_request_guc: no local bound to location_table.get_entry(...)")
    ifs = [st for st in f.body if isinstance(st, ast.If) and any(_calls(b, "gn_ls_request") for b in st.body)]
    if len(ifs) != 1:
        raise Untranslatable(f"gn_data_request_guc: {len(ifs)} top-level `if` statements call gn_ls_request (expected 1)")
    st = ifs[0]
    if st.orelse or not isinstance(st.body[-1], ast.Return):
        raise Untranslatable("gn_data_request_guc: the location-service branch does not end the request")
    # no transmission / sequence number before the guard
    for prev in f.body[:f.body.index(st)]:
        if _calls(prev, "get_sequence_number") or _calls(prev, "send"):
            raise Untranslatable("gn_data_request_guc: a sequence number is taken / a frame sent before the guard")
    return guard_to_lean(st.test), ast.unparse(st.test)


def extract_sn_shape(tree):
    f = _method(tree, "Router", "get_sequence_number")
    body = [st for st in f.body if not (isinstance(st, ast.Expr) and isinstance(st.value, ast.Constant))]
    locked = set()
    for st in ast.walk(f):
        if isinstance(st, ast.With) and any(
                isinstance(i.context_expr, ast.Attribute) and isinstance(i.context_expr.value, ast.Name)
                and i.context_expr.value.id == "self" and i.context_expr.attr == "sequence_number_lock" for i in st.items):
            for b in st.body:
                locked |= {id(x) for x in ast.walk(b)}
    acc = [n for n in ast.walk(f) if isinstance(n, ast.Attribute) and isinstance(n.value, ast.Name)
           and n.value.id == "self" and n.attr == "sequence_number"]
    rets = [n for n in ast.walk(f) if isinstance(n, ast.Return)]
    outside = sum(1 for n in acc if id(n) not in locked)

    def safe(ret):
        """the result is read under the lock: the `return` is inside the section, or it returns a local that is only
        assigned inside the section (`value = self.sequence_number` under the lock, `return value` after it)"""
        if id(ret) in locked:
            return True
        if isinstance(ret.value, ast.Name):
            stores = [n for n in ast.walk(f) if isinstance(n, ast.Name) and n.id == ret.value.id
                      and isinstance(n.ctx, ast.Store)]
            return bool(stores) and all(id(n) in locked for n in stores)
        return False
    under = bool(rets) and all(safe(n) for n in rets)
    return outside, under, len(body)


def _is_self_attr(node, attr):
    return isinstance(node, ast.Attribute) and isinstance(node.value, ast.Name) and node.value.id == "self" \
        and node.attr == attr


def _mentions(node, attr):
    return any(_is_self_attr(n, attr) for n in ast.walk(node))


def _removes_buffer(node):
    """`self._ls_packet_buffers.pop(...)` or `del self._ls_packet_buffers[...]` somewhere in `node`"""
    for n in ast.walk(node):
        if isinstance(n, ast.Call) and isinstance(n.func, ast.Attribute) and n.func.attr == "pop" \
                and _is_self_attr(n.func.value, "_ls_packet_buffers"):
            return True
        if isinstance(n, ast.Delete) and any(isinstance(t, ast.Subscript) and _is_self_attr(t.value, "_ls_packet_buffers")
                                             for t in n.targets):
            return True
    return False


def extract_ls_flush(tree):
    f = _method(tree, "Router", "gn_data_indicate_ls_reply")
    loops = [n for n in ast.walk(f) if isinstance(n, ast.For) and _calls(n, "gn_data_request_guc")]
    if len(loops) != 1 or not isinstance(loops[0].iter, ast.Name):
        raise Untranslatable("gn_data_indicate_ls_reply: expected ONE loop `for req in <name>` re-issuing the buffered requests")
    var = loops[0].iter.id
    locked = {}      # id(node) -> the `with self._ls_lock` statement it is inside of
    for w in ast.walk(f):
        if isinstance(w, ast.With) and any(_is_self_attr(i.context_expr, "_ls_lock") for i in w.items):
            for b in w.body:
                for x in ast.walk(b):
                    locked[id(x)] = w
    binds = []
    for st in ast.walk(f):
        if isinstance(st, (ast.Assign, ast.AnnAssign)) and st.value is not None:
            targets = st.targets if isinstance(st, ast.Assign) else [st.target]
            if any(isinstance(t, ast.Name) and t.id == var for t in targets) and _mentions(st.value, "_ls_packet_buffers"):
                binds.append(st)
    if not binds:
        raise Untranslatable(f"gn_data_indicate_ls_reply: `{var}` is never bound to something read from _ls_packet_buffers")
    takes = all(id(b) in locked and _removes_buffer(locked[id(b)]) for b in binds)
    # nothing puts the flushed requests back
    for n in ast.walk(f):
        if isinstance(n, (ast.Assign, ast.AugAssign)):
            for t in (n.targets if isinstance(n, ast.Assign) else [n.target]):
                if isinstance(t, ast.Subscript) and _is_self_attr(t.value, "_ls_packet_buffers"):
                    takes = False
    return takes


LOCT = "geonet/location_table.py"


def extract_age_clamp(tree):
    """`LocationTable._age_ms(current_time, tst)`: before the subtraction is returned, a top-level `if` whose test is
    `tst > current_time` (or `current_time < tst`) returns the constant 0"""
    f = _method(tree, "LocationTable", "_age_ms")
    params = [a.arg for a in f.args.args if a.arg not in ("self", "cls")]
    if len(params) != 2:
        raise Untranslatable("LocationTable._age_ms: expected the two parameters (current_time, tst)")
    now, tst = params
    body = [st for st in f.body if not (isinstance(st, ast.Expr) and isinstance(st.value, ast.Constant))]
    if not body or not isinstance(body[-1], ast.Return) or not isinstance(body[-1].value, ast.BinOp) \
            or not isinstance(body[-1].value.op, ast.Sub):
        raise Untranslatable("LocationTable._age_ms: the last statement is not `return <a> - <b>`")
    sub = body[-1].value
    if not (isinstance(sub.left, ast.Name) and sub.left.id == now and isinstance(sub.right, ast.Name) and sub.right.id == tst):
        raise Untranslatable("LocationTable._age_ms: the age is not `current_time - tst`")

    def ahead(test):
        if isinstance(test, ast.Compare) and len(test.ops) == 1 and isinstance(test.left, ast.Name) \
                and isinstance(test.comparators[0], ast.Name):
            l, r, op = test.left.id, test.comparators[0].id, test.ops[0]
            return (isinstance(op, ast.Gt) and (l, r) == (tst, now)) or (isinstance(op, ast.Lt) and (l, r) == (now, tst))
        return False
    for st in body[:-1]:
        if isinstance(st, ast.If) and ahead(st.test) and len(st.body) == 1 and isinstance(st.body[0], ast.Return) \
                and _is_const(st.body[0].value, 0) and not st.orelse:
            return True
        if any(isinstance(n, ast.Return) for n in ast.walk(st)):
            break       # something else returns first
    return False


def _stores_into(node, attr):
    """`self.<attr>[...] = ...` / augmented assignment somewhere in `node`"""
    for n in ast.walk(node):
        if isinstance(n, (ast.Assign, ast.AugAssign, ast.AnnAssign)):
            for t in (n.targets if isinstance(n, ast.Assign) else [n.target]):
                if isinstance(t, ast.Subscript) and _is_self_attr(t.value, attr):
                    return True
        if isinstance(n, ast.Call) and isinstance(n.func, ast.Attribute) and n.func.attr in ("setdefault", "update") \
                and _is_self_attr(n.func.value, attr):
            return True
    return False


def _removes(node, attr):
    for n in ast.walk(node):
        if isinstance(n, ast.Call) and isinstance(n.func, ast.Attribute) and n.func.attr == "pop" \
                and _is_self_attr(n.func.value, attr):
            return True
        if isinstance(n, ast.Delete) and any(isinstance(t, ast.Subscript) and _is_self_attr(t.value, attr) for t in n.targets):
            return True
    return False


def extract_ls_giveup(tree):
    """`Router._ls_retransmit`: the branch taken when itsGnLocationServiceMaxRetrans is reached removes the lookup's
    entries from `_ls_retransmit_counters` (whose key presence means 'lookup running' in gn_ls_request) and from
    `_ls_packet_buffers`, stores nothing back into either, and ends the callback"""
    f = _method(tree, "Router", "_ls_retransmit")
    ifs = [n for n in ast.walk(f) if isinstance(n, ast.If) and any(
        isinstance(x, ast.Attribute) and x.attr == "itsGnLocationServiceMaxRetrans" for x in ast.walk(n.test))]
    if len(ifs) != 1:
        raise Untranslatable(f"_ls_retransmit: {len(ifs)} tests of itsGnLocationServiceMaxRetrans (expected 1)")
    br = ast.Module(body=ifs[0].body, type_ignores=[])
    if not isinstance(ifs[0].body[-1], ast.Return):
        raise Untranslatable("_ls_retransmit: the give-up branch does not end the callback")
    return all(_removes(br, a) and not _stores_into(br, a) for a in ("_ls_retransmit_counters", "_ls_packet_buffers"))


def extract_ls_buffer_order(tree):
    """`Router.gn_ls_request`: the packet buffer of a NEW lookup (holding the triggering request) exists before the LS
    request is handed to the link layer: no top-level statement from the one that calls `_send_ls_request_packet`
    onwards touches `_ls_packet_buffers` or the `buffered_request` parameter, and a `with self._ls_lock` block before
    it stores into `_ls_packet_buffers`"""
    f = _method(tree, "Router", "gn_ls_request")
    sends = [k for k, st in enumerate(f.body) if _calls(st, "_send_ls_request_packet") or _calls(st, "send")]
    if not sends:
        raise Untranslatable("gn_ls_request: no top-level statement sends the LS request")
    k0 = sends[0]
    for st in f.body[k0:]:
        if _mentions(st, "_ls_packet_buffers") or any(isinstance(n, ast.Name) and n.id == "buffered_request" for n in ast.walk(st)):
            return False
    for st in f.body[:k0]:
        if isinstance(st, ast.With) and any(_is_self_attr(i.context_expr, "_ls_lock") for i in st.items) \
                and _stores_into(st, "_ls_packet_buffers"):
            return True
    return False


@register(props=["C01"])
def gen_net_facts():
    tree = ast.parse(src(ROUTER))
    clamp = extract_age_clamp(ast.parse(src(LOCT)))
    forgets = extract_ls_giveup(tree)
    early = extract_ls_buffer_order(tree)
    guard, text = extract_guc_guard(tree)
    outside, under, nst = extract_sn_shape(tree)
    takes = extract_ls_flush(tree)
    import gen_locks                    # lock-section shapes (refresh_table, new_*_packet): obligations of Props/C01.lean
    gen_locks.gen_locks()
    body = "set_option linter.unusedVariables false\nnamespace Generated.NetFacts\n"
    body += f"/-- Router.gn_data_request_guc: `if {text}:` -> location service -/\n"
    body += f"def gucQueueGuard (present pending neighbour : Bool) : Bool := {guard}\n"
    body += "/-- Router.get_sequence_number -/\n"
    body += f"def snAccessesOutsideLock : Nat := {outside}\n"
    body += f"def snReturnsUnderLock : Bool := {'true' if under else 'false'}\n"
    body += f"def snStatements : Nat := {nst}\n"
    body += "/-- Router.gn_data_indicate_ls_reply: the flushed requests are taken out of _ls_packet_buffers under _ls_lock -/\n"
    body += f"def lsFlushTakesBuffer : Bool := {'true' if takes else 'false'}\n"
    body += "/-- LocationTable._age_ms: `if tst > current_time: return 0` guards the subtraction -/\n"
    body += f"def ageClampsFuture : Bool := {'true' if clamp else 'false'}\n"
    body += "/-- Router._ls_retransmit: the give-up branch removes the lookup from _ls_retransmit_counters and _ls_packet_buffers -/\n"
    body += f"def lsGiveUpForgetsLookup : Bool := {'true' if forgets else 'false'}\n"
    body += "/-- Router.gn_ls_request: the packet buffer of a new lookup is stored (under _ls_lock) before the LS request is sent -/\n"
    body += f"def lsBufferBeforeSend : Bool := {'true' if early else 'false'}\n"
    body += "end Generated.NetFacts\n"
    write_if_changed("NetFacts.lean", body)


if __name__ == "__main__":
    gen_net_facts()
    print(open(__import__("os").path.join(__import__("gen_lean").GEN_DIR, "NetFacts.lean")).read())

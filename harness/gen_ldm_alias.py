"""Generated/LdmAlias.lean (C12): who may hold a reference to a stored data container?

The Lean models of the LDM (Store.lean, Spec.lean) are value-semantic: every identifier owns its record, `replaceId`
builds a new row.  The Python store keeps `dict`s, so that abstraction is only faithful while no two identifiers can
share ONE mutable container: (1) every accepted add hands the database a container nobody else holds, and (2) nothing
writes into a container it fetched from the database (update is copy-on-write).  An `ast` pass (nothing is imported or
executed) re-reads both facts on every run; `Props.C12.containers_are_unshared` discharges them by `decide`, so a
source change of either site re-opens that obligation.

(1) `AddDataProviderReq.to_dict` (ldm_classes.py)
    toDictOutsideWrites  stores (assignment / augmented assignment / delete targets, mutating method calls such as
                         `.update`, `.setdefault`, `.__setitem__`, `setattr(...)`) whose root is not a local variable
                         of the function: `self.x = ...`, `self.__dict__[...] = ...`, `CACHE[...] = ...`  (expected 0)
    toDictReflective     mentions of `__dict__` / `vars(...)` / `global` / `nonlocal`                    (expected 0)
    toDictDecorators     decorators on the method (memoising wrappers)                                   (expected 0)
    toDictReturnsFresh   every `return` hands out a dict display `{...}` / `dict(...)` built in this call, directly
                         or through a local name that is only ever bound to such an expression           (expected true)
(2) `LDMMaintenance.update_provider_data` (ldm_maintenance.py)
    updateStoreCalls         calls `self.data_containers.update(X, ...)`                                 (expected >= 1)
    updateWritesIntoFetched  stores / mutating calls whose root is a name bound to what a call on
                             `self.data_containers` returned (or an alias of such a name)                 (expected 0)
    updatePassesFresh        every X above is a copy built in this call (`dict(...)`, `{...}`, `.copy()`,
                             `copy.copy/deepcopy(...)`), directly or through a local name only bound to such an
                             expression, and never a fetched container                                   (expected true)
Renaming locals, reordering independent statements or adding log lines does not change any of these values.
"""
from __future__ import annotations

import ast

import gen_lean
from gen_lean import write_if_changed

MUTATORS = {"update", "setdefault", "__setitem__", "__setattr__", "__delitem__", "__delattr__", "pop", "popitem",
            "clear", "append", "extend", "insert", "add", "remove", "discard"}


def _root(node):
    """name at the root of an Attribute / Subscript / Call-receiver chain, or None"""
    while isinstance(node, (ast.Attribute, ast.Subscript)):
        node = node.value
    return node.id if isinstance(node, ast.Name) else None


def _method(path, cls, name):
    tree = ast.parse(gen_lean.src(path))
    for c in ast.walk(tree):
        if isinstance(c, ast.ClassDef) and c.name == cls:
            for f in c.body:
                if isinstance(f, (ast.FunctionDef, ast.AsyncFunctionDef)) and f.name == name:
                    return f
    raise AssertionError(f"{cls}.{name} not found in {path}")


def _bindings(fn):
    """local name -> list of the expressions it is bound to by plain assignments (other binders: None)"""
    out = {}
    for n in ast.walk(fn):
        if isinstance(n, ast.Assign):
            for t in n.targets:
                if isinstance(t, ast.Name):
                    out.setdefault(t.id, []).append(n.value)
                elif isinstance(t, (ast.Tuple, ast.List)):
                    for e in ast.walk(t):
                        if isinstance(e, ast.Name):
                            out.setdefault(e.id, []).append(None)
        elif isinstance(n, ast.AnnAssign) and isinstance(n.target, ast.Name):
            out.setdefault(n.target.id, []).append(n.value)
        elif isinstance(n, ast.AugAssign) and isinstance(n.target, ast.Name):
            out.setdefault(n.target.id, []).append(None)
        elif isinstance(n, ast.NamedExpr):
            out.setdefault(n.target.id, []).append(n.value)
        elif isinstance(n, (ast.For, ast.AsyncFor, ast.comprehension)):
            for e in ast.walk(n.target):
                if isinstance(e, ast.Name):
                    out.setdefault(e.id, []).append(None)
        elif isinstance(n, (ast.With, ast.AsyncWith)):
            for it in n.items:
                if it.optional_vars is not None:
                    for e in ast.walk(it.optional_vars):
                        if isinstance(e, ast.Name):
                            out.setdefault(e.id, []).append(None)
        elif isinstance(n, ast.ExceptHandler) and n.name:
            out.setdefault(n.name, []).append(None)
    return out


def _stores(fn):
    """[(root name, node)] of every store through an Attribute / Subscript and every mutating call"""
    out = []
    for n in ast.walk(fn):
        targets = []
        if isinstance(n, ast.Assign):
            targets = n.targets
        elif isinstance(n, (ast.AugAssign, ast.AnnAssign)):
            targets = [n.target]
        elif isinstance(n, ast.Delete):
            targets = n.targets
        for t in targets:
            for e in ([t] if not isinstance(t, (ast.Tuple, ast.List)) else list(t.elts)):
                if isinstance(e, (ast.Attribute, ast.Subscript)):
                    out.append((_root(e), e))
        if isinstance(n, ast.Call):
            f = n.func
            if isinstance(f, ast.Attribute) and f.attr in MUTATORS:
                recv = f.value
                if isinstance(recv, ast.Name) and recv.id == "object" and n.args:      # object.__setattr__(x, ...)
                    out.append((_root(n.args[0]), n))
                else:
                    out.append((_root(recv), n))
            elif isinstance(f, ast.Name) and f.id in ("setattr", "delattr") and n.args:
                out.append((_root(n.args[0]), n))
    return out


def _is_fresh_dict(e, copies_ok):
    """a dict built by this very evaluation"""
    if isinstance(e, ast.Dict):
        return True
    if isinstance(e, ast.DictComp):
        return True
    if isinstance(e, ast.Call):
        f = e.func
        if isinstance(f, ast.Name) and f.id == "dict":
            return True
        if copies_ok:
            if isinstance(f, ast.Attribute) and f.attr == "copy" and not e.args:           # x.copy()
                return True
            if isinstance(f, ast.Attribute) and f.attr in ("copy", "deepcopy") and _root(f.value) == "copy":
                return True
            if isinstance(f, ast.Name) and f.id == "deepcopy":
                return True
    return False


def _fresh_expr(e, binds, copies_ok):
    if e is None:
        return False
    if _is_fresh_dict(e, copies_ok):
        return True
    if isinstance(e, ast.Name):
        bs = binds.get(e.id)
        return bool(bs) and all(b is not None and _is_fresh_dict(b, copies_ok) for b in bs)
    return False


def to_dict_facts():
    fn = _method("facilities/local_dynamic_map/ldm_classes.py", "AddDataProviderReq", "to_dict")
    binds = _bindings(fn)
    # a local that is itself bound to something non-local (e.g. `cached = self.__dict__`) is not a local container
    local_fresh = {n for n in binds if _fresh_expr(ast.Name(id=n), binds, False)}
    outside = sum(1 for root, _ in _stores(fn) if root not in local_fresh)
    reflective = 0
    for n in ast.walk(fn):
        if isinstance(n, ast.Attribute) and n.attr == "__dict__":
            reflective += 1
        elif isinstance(n, ast.Call) and isinstance(n.func, ast.Name) and n.func.id == "vars":
            reflective += 1
        elif isinstance(n, (ast.Global, ast.Nonlocal)):
            reflective += 1
    returns = [n for n in ast.walk(fn) if isinstance(n, ast.Return)]
    fresh = bool(returns) and all(_fresh_expr(r.value, binds, False) for r in returns)
    return outside, reflective, len(fn.decorator_list), fresh


def _on_containers(call):
    """is `call` a call of a method of `self.data_containers`?  -> method name"""
    f = call.func
    if (isinstance(f, ast.Attribute) and isinstance(f.value, ast.Attribute) and f.value.attr == "data_containers"
            and isinstance(f.value.value, ast.Name) and f.value.value.id == "self"):
        return f.attr
    return None


def update_facts():
    fn = _method("facilities/local_dynamic_map/ldm_maintenance.py", "LDMMaintenance", "update_provider_data")
    binds = _bindings(fn)
    fetched = set()
    for name, bs in binds.items():
        for b in bs:
            if isinstance(b, ast.Call) and _on_containers(b) is not None:
                fetched.add(name)
    changed = True
    while changed:                                   # aliases: x = fetched, x = fetched[...], x = fetched.attr
        changed = False
        for name, bs in binds.items():
            if name in fetched:
                continue
            for b in bs:
                if isinstance(b, (ast.Name, ast.Attribute, ast.Subscript)) and _root(b) in fetched:
                    fetched.add(name)
                    changed = True
    writes = sum(1 for root, _ in _stores(fn) if root in fetched)
    calls = [n for n in ast.walk(fn) if isinstance(n, ast.Call) and _on_containers(n) == "update"]
    fresh = bool(calls)
    for c in calls:
        x = c.args[0] if c.args else next((k.value for k in c.keywords if k.arg == "data"), None)
        if x is None or (isinstance(x, ast.Name) and x.id in fetched) or not _fresh_expr(x, binds, True):
            fresh = False
    return len(calls), writes, fresh


@gen_lean.register(props=["C12"])
def gen_ldm_alias():
    outside, reflective, decorators, fresh = to_dict_facts()
    calls, writes, passes_fresh = update_facts()
    body = "namespace Generated.LdmAlias\n"
    body += f"def toDictOutsideWrites : Nat := {outside}\n"
    body += f"def toDictReflective : Nat := {reflective}\n"
    body += f"def toDictDecorators : Nat := {decorators}\n"
    body += f"def toDictReturnsFresh : Bool := {'true' if fresh else 'false'}\n"
    body += f"def updateStoreCalls : Nat := {calls}\n"
    body += f"def updateWritesIntoFetched : Nat := {writes}\n"
    body += f"def updatePassesFresh : Bool := {'true' if passes_fresh else 'false'}\n"
    body += "end Generated.LdmAlias\n"
    write_if_changed("LdmAlias.lean", body)

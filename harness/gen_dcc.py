"""C19: regenerates lean/Generated/Dcc.lean from flexstack/management/dcc_reactive.py and dcc_adaptive.py.

* `_TABLE_A1/_TABLE_A2` rows in dict (iteration) order as `(state, cbrMin, cbrMax, rate, tOff)` with CBR in 1e-4
  units, rate in mHz, T_off in ms.  A value that is not *exactly* the double nearest to a multiple of the unit is
  refused (generator failure = broken obligation), so the integer model never rounds silently.
* `_STATE_ORDER` and the `DccState` enum values.
* `DccAdaptiveParameters()` defaults, read as the shortest decimal that round-trips (`repr`), compared in Lean with
  Table 3 of TS 102 687.
* `GateKeeper.GATE_OPEN_MIN_INTERVAL_S/…MAX…/_T_EPSILON` as the exact rationals of the Python floats.
"""
from __future__ import annotations

from fractions import Fraction

import gen_lean
from gen_lean import lean_rat, lean_nat_list, write_if_changed


def _grid(x, unit, what):
    """x (float) -> k with float(k/unit) == x exactly"""
    fr = Fraction(x)
    k = round(fr * unit)
    if float(Fraction(k, unit)) != float(x):
        raise ValueError(f"{what}={x!r} is not the double of a multiple of 1/{unit}")
    return int(k)


def _exact(x, unit, what):
    fr = Fraction(x) * unit
    if fr.denominator != 1:
        raise ValueError(f"{what}={x!r} is not an integer multiple of 1/{unit}")
    return int(fr.numerator)


def _rows(tbl, name):
    out = []
    for st, cfg in tbl.items():
        s = int(st.value)
        out.append("(%d, %d, %d, %d, %d)" % (
            s, _grid(cfg.cbr_min, 10000, f"{name}[{s}].cbr_min"), _grid(cfg.cbr_max, 10000, f"{name}[{s}].cbr_max"),
            _exact(cfg.packet_rate_hz, 1000, f"{name}[{s}].packet_rate_hz"), _exact(cfg.t_off_ms, 1, f"{name}[{s}].t_off_ms")))
    return "[" + ", ".join(out) + "]"


def _dec(x):
    fr = Fraction(repr(float(x)))
    return f"(({fr.numerator} : Rat) / {fr.denominator})"


@gen_lean.register(props=["C19"])
def gen_dcc():
    import flexstack.management.dcc_reactive as r
    import flexstack.management.dcc_adaptive as a
    body = "namespace Generated.Dcc\n"
    body += "-- rows in dict order: (state, cbrMin [1e-4], cbrMax [1e-4], rate [mHz], tOff [ms])\n"
    body += f"def tableA1 : List (Nat × Int × Int × Nat × Nat) := {_rows(r._TABLE_A1, 'A1')}\n"
    body += f"def tableA2 : List (Nat × Int × Int × Nat × Nat) := {_rows(r._TABLE_A2, 'A2')}\n"
    body += f"def stateOrder : List Nat := {lean_nat_list(int(s.value) for s in r._STATE_ORDER)}\n"
    body += f"def stateValues : List Nat := {lean_nat_list(int(s.value) for s in r.DccState)}\n"
    p = a.DccAdaptiveParameters()
    body += "-- DccAdaptiveParameters() defaults (shortest round-tripping decimal of each Python float)\n"
    for lean_name, attr in (("dAlpha", "alpha"), ("dBeta", "beta"), ("dCbrTarget", "cbr_target"), ("dDeltaMax", "delta_max"),
                            ("dDeltaMin", "delta_min"), ("dDeltaUpMax", "delta_up_max"), ("dDeltaDownMax", "delta_down_max")):
        body += f"def {lean_name} : Rat := {_dec(getattr(p, attr))}\n"
    g = a.GateKeeper
    body += "-- GateKeeper class constants (exact rational value of each Python float)\n"
    body += f"def gateMin : Rat := {lean_rat(float(g.GATE_OPEN_MIN_INTERVAL_S))}\n"
    body += f"def gateMax : Rat := {lean_rat(float(g.GATE_OPEN_MAX_INTERVAL_S))}\n"
    body += f"def gateEps : Rat := {lean_rat(float(g._T_EPSILON))}\n"
    body += "end Generated.Dcc\n"
    write_if_changed("Dcc.lean", body)

"""C19: regenerates lean/Generated/Dcc.lean from flexstack/management/dcc_reactive.py and dcc_adaptive.py.

* `_TABLE_A1/_TABLE_A2` rows in dict (iteration) order as `(state, cbrMin, cbrMax, rate, tOff)` with CBR in 1e-4
  units, rate in mHz, T_off in ms.  A value that is not *exactly* the double nearest to a multiple of the unit is
  refused (generator failure = broken obligation), so the integer model never rounds silently.
* `_STATE_ORDER` and the `DccState` enum values.
* `DccAdaptiveParameters()` defaults, read as the shortest decimal that round-trips (`repr`), compared in Lean with
  Table 3 of TS 102 687.
* `GateKeeper.GATE_OPEN_MIN_INTERVAL_S/…MAX…` as the exact rationals of the Python floats.
* `gateEps`: the tolerance `is_open` actually subtracts from `t_go`, MEASURED on the class (smallest float at which a
  closed gate reports open, found by bisection, for three schedules): 0 when the gate opens exactly at `t_go`
  (repaired comparison), the exact rational of `_T_EPSILON` when the threshold is `fl(t_go - _T_EPSILON)` (C19-KF1), else
  the measured difference (Props.C19.gate_eps_variant then fails).  Measured rather than read from the AST so that a
  refactor of `is_open` that keeps the behaviour keeps the fact.
"""
from __future__ import annotations

from fractions import Fraction

import gen_lean
from gen_lean import lean_rat, lean_nat_list, write_if_changed


def _grid(x, unit, what):
    """x (float) -> k with float(k/unit) == x exactly"""
    fr = Fraction(x)
    k = round(fr * unit)
    if float(Fraction(k, unit)) != float(x):
        raise ValueError(f"{what}={x!r} is not the double of a multiple of 1/{unit}")
    return int(k)


def _exact(x, unit, what):
    fr = Fraction(x) * unit
    if fr.denominator != 1:
        raise ValueError(f"{what}={x!r} is not an integer multiple of 1/{unit}")
    return int(fr.numerator)


def _rows(tbl, name):
    out = []
    for st, cfg in tbl.items():
        s = int(st.value)
        out.append("(%d, %d, %d, %d, %d)" % (
            s, _grid(cfg.cbr_min, 10000, f"{name}[{s}].cbr_min"), _grid(cfg.cbr_max, 10000, f"{name}[{s}].cbr_max"),
            _exact(cfg.packet_rate_hz, 1000, f"{name}[{s}].packet_rate_hz"), _exact(cfg.t_off_ms, 1, f"{name}[{s}].t_off_ms")))
    return "[" + ", ".join(out) + "]"


def _dec(x):
    fr = Fraction(repr(float(x)))
    return f"(({fr.numerator} : Rat) / {fr.denominator})"


def _open_threshold(gk, lo, hi):
    """smallest float t in (lo, hi] with gk.is_open(t) (is_open is monotone in t); lo closed, hi open"""
    import math
    if gk.is_open(lo) or not gk.is_open(hi):
        raise ValueError("is_open is not closed/open at the probe ends")
    while math.nextafter(lo, hi) < hi:
        mid = lo + (hi - lo) / 2
        if mid <= lo or mid >= hi:
            mid = math.nextafter(lo, hi)
        if gk.is_open(mid):
            hi = mid
        else:
            lo = mid
    return hi


def measured_gate_eps(a):
    """Fraction: tolerance subtracted from t_go by is_open (see module docstring)"""
    g = a.GateKeeper
    decl = getattr(g, "_T_EPSILON", None)
    kinds = set()
    for t0, d0, ton in ((0.0, 1.0, 0.001), (0.0, 0.0006, 0.001), (1000.0, 0.01, 0.001), (0.5, 0.004, 0.0005)):
        gk = g(delta=d0)
        if not gk.admit_packet(t0, ton):
            raise ValueError("probe packet not admitted")
        tgo = gk._t_go
        tau = _open_threshold(gk, t0, tgo + 1.0)
        if tau == tgo:
            kinds.add(Fraction(0))
        elif isinstance(decl, float) and tau in (tgo - decl, __import__("math").nextafter(tgo - decl, tgo + 1.0)) and tau < tgo:
            kinds.add(Fraction(decl))
        else:
            kinds.add(Fraction(tgo) - Fraction(tau))
    if len(kinds) != 1:
        raise ValueError(f"is_open tolerance is not one constant: {sorted(float(k) for k in kinds)}")
    return kinds.pop()


@gen_lean.register(props=["C19"])
def gen_dcc():
    import flexstack.management.dcc_reactive as r
    import flexstack.management.dcc_adaptive as a
    body = "namespace Generated.Dcc\n"
    body += "-- rows in dict order: (state, cbrMin [1e-4], cbrMax [1e-4], rate [mHz], tOff [ms])\n"
    body += f"def tableA1 : List (Nat × Int × Int × Nat × Nat) := {_rows(r._TABLE_A1, 'A1')}\n"
    body += f"def tableA2 : List (Nat × Int × Int × Nat × Nat) := {_rows(r._TABLE_A2, 'A2')}\n"
    body += f"def stateOrder : List Nat := {lean_nat_list(int(s.value) for s in r._STATE_ORDER)}\n"
    body += f"def stateValues : List Nat := {lean_nat_list(int(s.value) for s in r.DccState)}\n"
    p = a.DccAdaptiveParameters()
    body += "-- DccAdaptiveParameters() defaults (shortest round-tripping decimal of each Python float)\n"
    for lean_name, attr in (("dAlpha", "alpha"), ("dBeta", "beta"), ("dCbrTarget", "cbr_target"), ("dDeltaMax", "delta_max"),
                            ("dDeltaMin", "delta_min"), ("dDeltaUpMax", "delta_up_max"), ("dDeltaDownMax", "delta_down_max")):
        body += f"def {lean_name} : Rat := {_dec(getattr(p, attr))}\n"
    g = a.GateKeeper
    body += "-- GateKeeper interval constants (exact rational value of each Python float)\n"
    body += f"def gateMin : Rat := {lean_rat(float(g.GATE_OPEN_MIN_INTERVAL_S))}\n"
    body += f"def gateMax : Rat := {lean_rat(float(g.GATE_OPEN_MAX_INTERVAL_S))}\n"
    eps = measured_gate_eps(a)
    body += "-- tolerance is_open subtracts from t_go, measured on the class (0 = opens exactly at t_go)\n"
    body += f"def gateEps : Rat := (({eps.numerator} : Rat) / {eps.denominator})\n"
    body += "end Generated.Dcc\n"
    write_if_changed("Dcc.lean", body)

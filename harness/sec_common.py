"""Shared helpers of the security checks C09 / C03 / C05.

* real PKIs with real ECDSA (`PythonECDSABackend`): root -> AA -> ATs, attacker PKIs, raw (mis-)signing
* abstraction of real certificates / secured messages to the inputs of the Lean model `FlexModel.Sec`
  (ids = HashedId8, keys = public points, `sigBy` = the key under which the signature REALLY verifies, found by
  ECDSA public-key recovery with the `ecdsa` package directly -- independent of the repository's verify path)
* an independent chain checker (oracle) using only `ecdsa` + an own OER coder instance
"""
from __future__ import annotations

import copy
import hashlib

import ecdsa

import common  # noqa: F401
from flexstack.security.certificate import Certificate, OwnCertificate
from flexstack.security.ecdsa_backend import PythonECDSABackend
from flexstack.security.security_coder import SecurityCoder

CODER = SecurityCoder()          # own instance: the oracle never goes through the repo's SECURITY_CODER object
ITS_EPOCH = 1072915200
YEAR_S = 31556952                # IEEE 1609.2: a year is 31556952 s
DUR_US = {"microseconds": 1, "milliseconds": 1000, "seconds": 10**6, "minutes": 60 * 10**6, "hours": 3600 * 10**6,
          "sixtyHours": 216000 * 10**6, "years": YEAR_S * 10**6}
ORDER = ecdsa.NIST256p.order


def its_now_s(clock_ms):
    return clock_ms // 1000 - ITS_EPOCH


# ------------------------------------------------------------------------------------------------ PKI


def perm_all(chain=2):
    return {"subjectPermissions": ("all", None), "minChainLength": chain, "chainLengthRange": 0, "eeType": (b"\x00", 1)}


def perm_explicit(psids, chain=1):
    return {"subjectPermissions": ("explicit", [{"psid": p} for p in psids]), "minChainLength": chain,
            "chainLengthRange": 0, "eeType": (b"\x00", 1)}


def split_groups(psids, rng, chain=1, with_all=False):
    """certIssuePermissions covering `psids`, split over 1-3 explicit PsidGroupPermissions in random order
    (optionally plus an `all` group): issuing scope = union over the groups"""
    ps = list(psids)
    rng.shuffle(ps)
    k = rng.randrange(1, min(3, len(ps)) + 1) if ps else 1
    cuts = sorted(rng.sample(range(1, len(ps)), k - 1)) if k > 1 else []
    groups = [perm_explicit(ps[a:b], chain) for a, b in zip([0] + cuts, cuts + [len(ps)])]
    if with_all:
        groups.insert(rng.randrange(len(groups) + 1), perm_all(chain))
    return groups


def psid_ssp(p, rng):
    """one PsidSsp entry: the bare ITS-AID, or the ITS-AID with Service Specific Permissions (bitmapSsp / opaque) -- the
    form PKI-issued CAM / DENM / VAM tickets have.  Authorisation is by ITS-AID: the ssp component never matters here"""
    if rng is None or rng.random() < 0.4:
        return {"psid": p}
    n = rng.choice([1, 3, 4])
    if rng.random() < 0.7:
        return {"psid": p, "ssp": ("bitmapSsp", bytes([1] + [rng.randrange(256) for _ in range(n - 1)]))}
    return {"psid": p, "ssp": ("opaque", bytes(rng.randrange(256) for _ in range(n)))}


def tbs(name=None, app=None, issue=None, start=0, duration=("years", 10), ssp=None):
    """`ssp`: a random.Random -> each appPermissions entry may carry an ssp component (see psid_ssp)"""
    t = {"id": ("name", name) if name is not None else ("none", None), "cracaId": b"\x00\x00\x00", "crlSeries": 0,
         "validityPeriod": {"start": start, "duration": duration},
         "verifyKeyIndicator": ("verificationKey", ("ecdsaNistP256", ("fill", None)))}
    if app is not None:
        t["appPermissions"] = [p if isinstance(p, dict) else psid_ssp(p, ssp) for p in app]     # dict: explicit PsidSsp entry
    if issue is not None:
        t["certIssuePermissions"] = copy.deepcopy(issue)
    return t


class Keys:
    """registry of every public key seen in a scenario: (x,y) -> small index (the model's `key`)"""

    def __init__(self):
        self.idx = {}
        self.sig_cache = {}

    def key_of_point(self, x: bytes, y: bytes):
        return self.idx.setdefault((bytes(x), bytes(y)), len(self.idx) + 1)

    def key_of_vki(self, vki):
        """index of a verifyKeyIndicator; unusable formats get a unique index nothing is signed with"""
        try:
            if vki[0] == "verificationKey" and vki[1][0] == "ecdsaNistP256" and vki[1][1][0] == "uncompressedP256":
                return self.key_of_point(vki[1][1][1]["x"], vki[1][1][1]["y"])
        except Exception:
            pass
        return self.idx.setdefault(("unusable", repr(vki)), len(self.idx) + 1)

    def signed_by(self, data: bytes, signature):
        """index of the registered key under which `signature` verifies over `data` (public key recovery), else None"""
        try:
            if signature[0] != "ecdsaNistP256Signature" or signature[1]["rSig"][0] != "x-only":
                return None
            r = int.from_bytes(signature[1]["rSig"][1], "big")
            s = int.from_bytes(signature[1]["sSig"], "big")
        except Exception:
            return None
        ck = (data, r, s)
        if ck in self.sig_cache:
            pts = self.sig_cache[ck]
        else:
            pts = []
            if 0 < r < ORDER and 0 < s < ORDER:
                try:
                    sig = ecdsa.util.sigencode_string(r, s, ORDER)
                    for vk in ecdsa.VerifyingKey.from_public_key_recovery(sig, data, ecdsa.NIST256p, hashfunc=hashlib.sha256):
                        p = vk.pubkey.point
                        pts.append((p.x().to_bytes(32, "big"), p.y().to_bytes(32, "big")))
                except Exception:
                    pts = []
            self.sig_cache[ck] = pts
        for p in pts:
            if p in self.idx:
                return self.idx[p]
        return None


class PKI:
    """one backend holding all private keys of a scenario; helpers for honest issuing and for raw mis-signing"""

    def __init__(self):
        self.backend = PythonECDSABackend()

    def root(self, name="root", issue=None, app=None, **kw):
        return OwnCertificate.initialize_certificate(self.backend, tbs(name, app=app, issue=issue or [perm_all(2)], **kw))

    def issue(self, issuer, name=None, app=None, issue=None, **kw):
        # kw: start, duration, ssp (see tbs)
        return OwnCertificate.initialize_certificate(self.backend, tbs(name, app=app, issue=issue, **kw), issuer)

    def raw(self, signer_key_id, cert_dict, issuer_obj=None, own_key_id=None):
        """sign `cert_dict` (issuer field as given) with an arbitrary private key -- what a misbehaving / attacking
        key holder can always do; bypasses every check of the issuing API"""
        d = copy.deepcopy(cert_dict)
        d["signature"] = self.backend.sign(CODER.encode_ToBeSignedCertificate(d["toBeSigned"]), signer_key_id)
        if own_key_id is not None:
            return OwnCertificate(certificate=d, issuer=issuer_obj, key_id=own_key_id)
        return Certificate(certificate=d, issuer=issuer_obj)

    def blank(self, tbs_dict, issuer_field, key_id=None):
        """unsigned certificate dict with a fresh (or given) key"""
        if key_id is None:
            key_id = self.backend.create_key()
        t = copy.deepcopy(tbs_dict)
        t["verifyKeyIndicator"] = ("verificationKey", self.backend.get_public_key(key_id))
        d = {"version": 3, "type": "explicit", "issuer": issuer_field, "toBeSigned": t,
             "signature": ("ecdsaNistP256Signature", {"rSig": ("x-only", b"\x01" * 32), "sSig": b"\x02" * 32})}
        return d, key_id


def hid8(cert_dict) -> bytes:
    return hashlib.sha256(CODER.encode_etsi_ts_103097_certificate(cert_dict)).digest()[-8:]


# ------------------------------------------------------------------------------------------------ abstraction


class Abs:
    """maps real certificates to model certificates (one registry per scenario)"""

    def __init__(self):
        self.keys = Keys()
        self.ids = {}        # hashedid8 -> small index (the model's `id`); index*2^24 + h3 keeps HashedId3 semantics
        self.certs = {}      # encoding -> (n, line)   (n = certificate number in the driver's table)
        self.lines = []      # pending `cert …` definition lines
        self.h3s = {}

    def id_of(self, h8: bytes) -> int:
        """model id: small running number in the high part, the REAL low 24 bits (HashedId3) in the low part"""
        h8 = bytes(h8)
        if h8 not in self.ids:
            self.ids[h8] = (len(self.ids) + 1) * (1 << 24) + int.from_bytes(h8[-3:], "big")
        return self.ids[h8]

    def h3_of(self, h3: bytes) -> int:
        return int.from_bytes(bytes(h3)[-3:], "big")

    def cert(self, d) -> int:
        """register certificate dict `d`; returns its number in the driver's certificate table"""
        enc = CODER.encode_etsi_ts_103097_certificate(d)
        if enc in self.certs:
            return self.certs[enc][0]
        n = len(self.certs) + 1
        t = d["toBeSigned"]
        iss = d["issuer"]
        if iss[0] == "self":
            issuer = "s" if iss[1] == "sha256" else "x"
        elif iss[0] == "sha256AndDigest":
            issuer = "d" + str(self.id_of(iss[1]))
        else:
            issuer = "o"
        vki = t["verifyKeyIndicator"]
        vki_verif = vki[0] == "verificationKey"
        key_p256 = bool(vki_verif and vki[1][0] == "ecdsaNistP256")
        key_unc = bool(key_p256 and vki[1][1][0] == "uncompressedP256")
        sig_p256 = d["signature"][0] == "ecdsaNistP256Signature" if "signature" in d else False
        app = ".".join(str(e["psid"]) for e in t["appPermissions"]) if "appPermissions" in t else "-"
        if "appPermissions" in t and not t["appPermissions"]:
            app = "e"
        if "certIssuePermissions" in t:
            parts = []
            for p in t["certIssuePermissions"]:
                sp = p["subjectPermissions"]
                s = "a" if sp[0] == "all" else "e" + ".".join(str(e["psid"]) for e in sp[1])
                parts.append(f"{s}:{p['minChainLength']}")
            issue = ";".join(parts) if parts else "e"
        else:
            issue = "-"
        vp = t["validityPeriod"]
        dur_us = vp["duration"][1] * DUR_US[vp["duration"][0]]
        key = self.keys.key_of_vki(vki)
        sig_by = self.keys.signed_by(CODER.encode_ToBeSignedCertificate(t), d.get("signature")) if "signature" in d else None
        cid = self.id_of(hashlib.sha256(enc).digest()[-8:])
        line = " ".join(str(x) for x in [
            "cert", n, cid, issuer, 0 if d["type"] == "explicit" else 1,
            int(vki_verif), int(sig_p256), int(key_p256), int(key_unc), int(t["id"][0] == "none"), app, issue,
            vp["start"], dur_us, key, sig_by if sig_by is not None else "-"])
        self.certs[enc] = (n, line, cid)
        self.lines.append(line)
        return n

    def cid(self, d) -> int:
        """model id (HashedId8 abstraction) of certificate dict `d`"""
        self.cert(d)
        return self.certs[CODER.encode_etsi_ts_103097_certificate(d)][2]

    def register_backend(self, backend):
        """make every public key of the scenario known BEFORE certificates are abstracted (sigBy looks keys up)"""
        for kid in sorted(backend.keys):
            pk = backend.get_public_key(kid)
            self.keys.key_of_point(pk[1][1]["x"], pk[1][1]["y"])

    def all_lines(self):
        return [v[1] for v in sorted(self.certs.values())]

    def take_lines(self):
        ls, self.lines = self.lines, []
        return ls

    def obj(self, c):
        """'<id>^<att id>' token of a Certificate object (attached issuer one level deep, '-' when None)"""
        if c is None:
            return "-"
        return f"{self.cid(c.certificate)}^{self.cid(c.issuer.certificate) if c.issuer is not None else '-'}"

    def dump_store(self, lib) -> str:
        def one(dct):
            out = [self.obj(c) for c in dct.values()]
            return ",".join(out) if out else "-"
        return (f"r:{one(lib.known_root_certificates)} a:{one(lib.known_authorization_authorities)} "
                f"t:{one(lib.known_authorization_tickets)} o:{one(lib.own_certificates)}")


# ------------------------------------------------------------------------------------------------ oracle


def vk_of(cert_dict):
    vki = cert_dict["toBeSigned"]["verifyKeyIndicator"]
    if vki[0] != "verificationKey" or vki[1][0] != "ecdsaNistP256" or vki[1][1][0] != "uncompressedP256":
        return None
    x = int.from_bytes(vki[1][1][1]["x"], "big")
    y = int.from_bytes(vki[1][1][1]["y"], "big")
    try:
        return ecdsa.VerifyingKey.from_public_point(ecdsa.ellipticcurve.Point(ecdsa.NIST256p.curve, x, y, ORDER), curve=ecdsa.NIST256p)
    except Exception:
        return None


_verify_cache = {}


def sig_ok(vk, data: bytes, signature) -> bool:
    if vk is None:
        return False
    try:
        if signature[0] != "ecdsaNistP256Signature" or signature[1]["rSig"][0] != "x-only":
            return False
        r = int.from_bytes(signature[1]["rSig"][1], "big")
        s = int.from_bytes(signature[1]["sSig"], "big")
        k = (vk.to_string(), data, r, s)
        if k not in _verify_cache:
            try:
                _verify_cache[k] = bool(vk.verify(ecdsa.util.sigencode_string(r, s, ORDER), data, hashfunc=hashlib.sha256))
            except Exception:
                _verify_cache[k] = False
            if len(_verify_cache) > 200000:
                _verify_cache.clear()
        return _verify_cache[k]
    except Exception:
        return False


def issuing_scope(cert_dict):
    """(all?, set of explicit psids) a certificate may issue for -- transcription of IEEE 1609.2 certIssuePermissions"""
    al, ex = False, set()
    for p in cert_dict["toBeSigned"].get("certIssuePermissions", []):
        if p["subjectPermissions"][0] == "all":
            al = True
        else:
            ex |= {e["psid"] for e in p["subjectPermissions"][1]}
    return al, ex


def perms_within(sub, iss) -> bool:
    """every permission the subject holds (application or issuing) is issuable by the issuer"""
    ial, iex = issuing_scope(iss)
    if ial:
        return True
    sal, sex = issuing_scope(sub)
    if sal:
        return False
    held = sex | {e["psid"] for e in sub["toBeSigned"].get("appPermissions", [])}
    return held <= iex


def chain_ok(cert_dict, roots: dict, cas: dict, depth=0):
    """independent chain checker: `cert_dict` is signed by a certificate of `roots`∪`cas` (dicts h8 -> cert dict) named
    by its issuer digest, permissions contained, recursively up to a member of `roots`.  Returns (ok, reason)"""
    if depth > 8:
        return False, "chain-too-long"
    iss = cert_dict["issuer"]
    if iss[0] != "sha256AndDigest":
        return False, "issuer-not-digest"
    i = roots.get(bytes(iss[1]))
    is_root = i is not None
    if i is None:
        i = cas.get(bytes(iss[1]))
    if i is None:
        return False, "issuer-not-in-store"
    if not sig_ok(vk_of(i), CODER.encode_ToBeSignedCertificate(cert_dict["toBeSigned"]), cert_dict["signature"]):
        return False, "signature-not-by-issuer"
    if not perms_within(cert_dict, i):
        return False, "permissions-exceed-issuer"
    if is_root:
        return True, "ok"
    return chain_ok(i, roots, cas, depth + 1)


UNIT_S = {"seconds": 1, "minutes": 60, "hours": 3600, "sixtyHours": 216000, "years": YEAR_S}


def validity_around(rng, now_s, span_s=120):
    """(start, duration) of a validity period that contains [now_s, now_s + span_s], over the IEEE 1609.2 Duration units
    whose Uint16 range can hold it, placed so that `now_s` falls near the START, in the middle or near the END of the
    period (the remaining time after the span: seconds .. hours .. half the period) -- every unit has its own
    microsecond factor in the receiver's validity test, and a wrong factor shows only near the end"""
    unit = rng.choice(["seconds", "minutes", "hours", "sixtyHours", "years"])
    per = UNIT_S[unit]
    lo = max(1, -(-(span_s + 120) // per))
    n = rng.choice([lo, lo + 1, 2 * lo + 1, 3, 100, 1000, 65535]) if unit != "years" else rng.choice([1, 1, 2, 3, 10])
    n = max(lo, min(n, 65535 if unit != "years" else 30))
    total = n * per
    slack = total - span_s
    pos = rng.random()
    if pos < 0.25:
        before = rng.choice([0, 1, 30, 1000])                       # just started
    elif pos < 0.75:
        after = rng.choice([1, 30, 600, 3600, 2 * 3600, 5 * 3600, 12 * 3600, 40 * 3600])   # about to end
        before = slack - after
    else:
        before = slack // 2
    before = max(0, min(before, slack, now_s))
    return now_s - before, (unit, n)


def psid_ssp_json(entries):
    """appPermissions entries as JSON-able lists [psid] / [psid, choice, hex] (replay files)"""
    return [[e["psid"]] if "ssp" not in e else [e["psid"], e["ssp"][0], bytes(e["ssp"][1]).hex()] for e in entries]


def psid_ssp_from_json(rows):
    return [{"psid": r[0]} if len(r) == 1 else {"psid": r[0], "ssp": (r[1], bytes.fromhex(r[2]))} for r in rows]


def validity_us(cert_dict):
    vp = cert_dict["toBeSigned"]["validityPeriod"]
    s = vp["start"] * 10**6
    return s, s + vp["duration"][1] * DUR_US[vp["duration"][0]]


# ------------------------------------------------------------------------------------------------ messages


def make_signed(backend, key_id, header_info: dict, payload, signer, signature=None) -> bytes:
    """EtsiTs103097Data-Signed built and signed directly (own coder + backend key), bypassing SignService"""
    tbs_data = {"payload": {"data": {"protocolVersion": 3, "content": ("unsecuredData", payload)}},
                "headerInfo": header_info}
    if signature is None:
        signature = backend.sign(CODER.encode_to_be_signed_data(tbs_data), key_id)
    return CODER.encode_etsi_ts_103097_data_signed(
        {"protocolVersion": 3, "content": ("signedData", {"hashId": "sha256", "tbsData": tbs_data, "signer": signer,
                                                          "signature": signature})})


def decode_signed(data: bytes):
    """independent parse of a secured message: (signed_data dict, tbs bytes) or None when it is not a decodable
    EtsiTs103097Data-Signed whose ToBeSignedData re-encodes"""
    try:
        d = CODER.decode_etsi_ts_103097_data_signed(data)
        if d["content"][0] != "signedData":
            return None
        sd = d["content"][1]
        tbs_bytes = CODER.encode_to_be_signed_data(sd["tbsData"])
        sd["tbsData"]["headerInfo"]["psid"]
        # SignerIdentifier is an extensible CHOICE: an unrecognised alternative decodes (asn1tools: choice name None).
        # The verify path treats everything that is neither `digest` nor `certificate` alike (psid 37: report
        # UNSUPPORTED_SIGNER_IDENTIFIER_TYPE, otherwise Exception("Unknown signer type")): the model's `Signer.selfS`.
        return sd, tbs_bytes
    except Exception:
        return None


def envelope_choice(data: bytes):
    """content CHOICE of an Ieee1609Dot2Data envelope that decodes, else None"""
    try:
        return CODER.decode_etsi_ts_103097_data_signed(data)["content"][0]
    except Exception:  # noqa: BLE001
        return None


def make_envelope(choice, content) -> bytes:
    return CODER.encode_etsi_ts_103097_data_signed({"protocolVersion": 3, "content": (choice, content)})


def abs_msg(A: "Abs", sd, tbs_bytes) -> str:
    """model tokens of a decoded secured message"""
    hi = sd["tbsData"]["headerInfo"]
    gt = hi.get("generationTime")
    flags = [int(k in hi) for k in ("generationLocation", "p2pcdLearningRequest", "missingCrlIdentifier", "expiryTime", "encryptionKey")]
    if "inlineP2pcdRequest" in hi:
        inl = ".".join(str(A.h3_of(x)) for x in hi["inlineP2pcdRequest"]) or "e"
    else:
        inl = "-"
    try:
        rc = str(A.cert(hi["requestedCertificate"])) if "requestedCertificate" in hi else "-"
    except Exception:  # noqa: BLE001 - only read after a successful verification
        rc = "-"
    sg = sd["signer"]
    if sg[0] == "digest":
        signer = "d" + str(A.id_of(sg[1]))
    elif sg[0] == "certificate":
        if len(sg[1]) == 1:
            signer = "c" + str(A.cert(sg[1][0]))      # not encodable -> raises (the repository raises there too)
        else:
            try:
                signer = "c" + ",".join(str(A.cert(c)) for c in sg[1]) if sg[1] else "ce"
            except Exception:  # noqa: BLE001 - list length != 1 is refused before the certificates are looked at
                signer = "ce"
    else:
        signer = "s"
    sig = sd["signature"]
    fmt = int(sig[0] == "ecdsaNistP256Signature" and sig[1]["rSig"][0] == "x-only")
    sb = A.keys.signed_by(tbs_bytes, sig)
    try:
        content = sd["tbsData"]["payload"]["data"]["content"]
        pl = A.payload(content[1]) if content[0] == "unsecuredData" else 0
    except Exception:
        pl = 0
    toks = [hi["psid"], gt if gt is not None else "-", *flags, inl, rc, signer, fmt, sb if sb is not None else "-", pl]
    if DRIVER_HAS_VARIANT:
        # identity of the signature VALUE (model field `Msg.sig`; not read by the verify path, used by the tamper theorems)
        if not hasattr(A, "_sigvals"):
            A._sigvals = {}
        toks.append(A._sigvals.setdefault(repr(sig), len(A._sigvals) + 1))
    return " ".join(str(x) for x in toks)


def _abs_payload(self, b) -> int:
    b = bytes(b) if isinstance(b, (bytes, bytearray)) else repr(b).encode()
    if not hasattr(self, "_payloads"):
        self._payloads = {}
    return self._payloads.setdefault(b, len(self._payloads) + 1)


Abs.payload = _abs_payload


# ------------------------------------------------------------------------------------------------ real stations


class RealStation:
    """CertificateLibrary + SignService + VerifyService of one station (real classes, real ECDSA)"""

    def __init__(self, backend, roots=(), aas=(), ats=(), has_sign=True):
        from flexstack.security.certificate_library import CertificateLibrary
        from flexstack.security.sign_service import SignService
        from flexstack.security.verify_service import VerifyService
        self.backend = backend
        self.lib = CertificateLibrary(backend, list(roots), list(aas), list(ats))
        self.ss = SignService(backend, self.lib)
        self.vs = VerifyService(backend, self.lib, self.ss if has_sign else None)
        self.has_sign = has_sign

    def verify(self, data: bytes):
        from flexstack.security.sn_sap import SNVERIFYRequest
        return self.vs.verify(SNVERIFYRequest(sec_header=b"", sec_header_length=0, message=data, message_length=len(data)))

    def dump_sign(self, A: "Abs") -> str:
        def nats(l):
            return ".".join(str(A.h3_of(x)) for x in l) if l else "-"
        h = self.ss.cam_handler
        out = (f"u:{nats(self.ss.unknown_ats)} q:{nats(self.ss.requested_ats)} "
               f"lf:{int(round(h.last_signer_full_certificate_time * 1000))} ro:{int(bool(h.requested_own_certificate))}")
        if DRIVER_HAS_VARIANT and per_ticket_variant():
            # repaired sign service (C05-F2): inclusion time and pending request per ticket (dict / set: canonical order)
            last = sorted((A.id_of(k), int(round(v * 1000))) for k, v in getattr(h, "last_full_certificate_time_of", {}).items())
            owed = sorted(A.id_of(k) for k in getattr(h, "certificate_owed_by", ()))
            out += (" lo:" + (",".join(f"{i}@{t}" for i, t in last) or "-")
                    + " ow:" + (".".join(str(i) for i in owed) or "-"))
        return out

    def dump(self, A: "Abs") -> str:
        return A.dump_store(self.lib) + " " + self.dump_sign(A)


_PER_TICKET = None
DRIVER_HAS_VARIANT = True      # the driver understands `new k hs pt` and the signature-value token (per-ticket model deployed)


def per_ticket_variant() -> bool:
    """which sign service is under test (decided by BEHAVIOUR, once per process): a station holding separate CAM and VAM
    tickets sends a CAM and, 500 ms later, its first VAM.  The VAM ticket's certificate has never been included, so the
    rule demands it; the code before repair C05-F2 (one inclusion timer for all tickets) sends the digest.
    True = timer / pending requests kept per ticket (model variant `perTicket = true`)."""
    global _PER_TICKET
    if _PER_TICKET is None:
        import realstack as rs
        import flexstack.geonet.router as router_mod
        t0 = 1_700_000_000_000
        old_timer = router_mod.Timer
        router_mod.Timer = NoTimer
        try:
            with rs.VClock(t0) as clock, rs.quiet():
                p = PKI()
                now = its_now_s(t0)
                live = dict(start=now - 1000, duration=("hours", 100))
                root = p.root("root", **live)
                aa = p.issue(root, "aa", issue=[perm_explicit([36, 638], 1)], **live)
                at_cam, at_vam = p.issue(aa, app=[36], **live), p.issue(aa, app=[638], **live)
                _PER_TICKET = False          # while the probe station dumps nothing per ticket
                st = RouterStation(p.backend, 1, [root], [aa], [], own=[at_cam, at_vam])
                clock.ms = t0 + 10_000
                st.send("cam", b"x", clock.ms)
                clock.ms = t0 + 10_500
                fr = st.send("vam", b"x", clock.ms)
                sd = decode_signed(fr[0][4:])[0]
                _PER_TICKET = sd["signer"][0] == "certificate"
        except Exception:  # noqa: BLE001 - e.g. a seeded change that breaks signing: judged by the checks, not here
            _PER_TICKET = False
        finally:
            router_mod.Timer = old_timer
    return _PER_TICKET


def new_station_lines(A: "Abs", k: int, roots, aas, ats, has_sign=True):
    """model lines reproducing the CertificateLibrary constructor (third token of `new`: sign-service variant)"""
    ls = [f"new {k} {int(has_sign)}" + (f" {int(per_ticket_variant())}" if DRIVER_HAS_VARIANT else "")]
    for op, lst in (("addroot", roots), ("addaa", aas), ("addat", ats)):
        for c in lst:
            ls.append(f"{op} {k} {A.cert(c.certificate)} {A.cert(c.issuer.certificate) if c.issuer is not None else '-'}")
    return ls


def verify_line(A: "Abs", st: RealStation, data: bytes, payload_of=None):
    """run the real verify; returns (canonical real line, confirm or exception)"""
    try:
        conf = st.verify(data)
    except Exception as e:  # noqa: BLE001 - every exception type is an outcome
        return f"err:{type(e).__name__} {st.dump(A)}", e
    cid = str(A.id_of(conf.certificate_id)) if conf.certificate_id else "-"
    plain = str(A.payload(conf.plain_message)) if conf.report.value == 0 else "-"
    return f"rep:{conf.report.value} cid:{cid} plain:{plain} {st.dump(A)}", conf


# ------------------------------------------------------------------------------------------------ routers


class NoTimer:
    """threading.Timer stand-in for geonet.router.Timer: never fires (CBF / LS retransmissions are not in scope)"""

    def __init__(self, *a, **k):
        self.daemon = True

    def start(self):
        pass

    def cancel(self):
        pass


class FireTimer:
    """threading.Timer stand-in for geonet.router.Timer that the harness fires: armed timers are kept in `FireTimer.armed`
    (callback name, owner = the Router the bound callback belongs to); `fire()` runs the callback on a THREAD OF ITS OWN,
    as threading.Timer does - never the receive thread, so nothing the receive path keeps per thread is there at expiry"""
    armed = []

    def __init__(self, interval, function, args=None, kwargs=None):
        self.daemon = True
        self.function, self.args, self.kwargs = function, list(args or []), dict(kwargs or {})
        self.owner = getattr(function, "__self__", None)
        self.name = getattr(function, "__name__", "")
        self.active = False

    def start(self):
        self.active = True
        FireTimer.armed.append(self)
        del FireTimer.armed[:-64]

    def cancel(self):
        self.active = False
        if self in FireTimer.armed:
            FireTimer.armed.remove(self)

    def fire(self):
        """returns the exception the callback raised on its thread (None: returned normally)"""
        import threading
        self.cancel()
        box = []

        def body():
            try:
                self.function(*self.args, **self.kwargs)
            except BaseException as e:  # noqa: BLE001 - an exception kills the timer thread: an outcome to judge
                box.append(e)
        th = threading.Thread(target=body, daemon=True)
        th.start()
        th.join(20)
        if th.is_alive():
            return TimeoutError("timer callback did not return within 20 s")
        return box[0] if box else None

    @classmethod
    def take(cls, owner, name="_cbf_timeout"):
        """armed timers of one Router (callback `name`), removed from the armed list"""
        mine = [t for t in cls.armed if t.owner is owner and t.name == name]
        for t in mine:
            cls.armed.remove(t)
        return mine


class RouterStation(RealStation):
    """a RealStation behind a real geonet Router (capturing link layer, indication recorder, gate probe)"""

    def __init__(self, backend, idx, roots=(), aas=(), ats=(), own=(), enabled=True, has_verify=True, has_sign=True,
                 lat=415000000, lon=21000000):
        import realstack as rs
        from flexstack.geonet.mib import MIB, GnSecurity
        from flexstack.geonet.router import Router
        super().__init__(backend, roots, aas, ats, has_sign)
        for c in own:
            self.lib.add_own_certificate(c)
        self.idx = idx
        mib = MIB(itsGnLocalGnAddr=rs.gn_addr(idx), itsGnSecurity=GnSecurity.ENABLED if enabled else GnSecurity.DISABLED)
        self.router = Router(mib, sign_service=self.ss, verify_service=self.vs if has_verify else None)
        self.ll = rs.CaptureLL()
        self.router.link_layer = self.ll
        self.inds = []
        self.router.register_indication_callback(self.inds.append)
        self.gate = []
        self.confirms = []
        self.lat, self.lon = lat, lon
        orig_common = self.router.process_common_header

        self.upper_fault = None      # fault injection: exception the processing AFTER the gate raises for the next packet

        def probe_common(packet, basic_header):
            self.gate.append(bytes(packet))
            if self.upper_fault is not None:
                exc, self.upper_fault = self.upper_fault, None
                raise exc
            return orig_common(packet, basic_header)
        self.router.process_common_header = probe_common
        orig_verify = self.vs.verify

        def probe_verify(request):
            conf = orig_verify(request)
            self.confirms.append(conf)
            return conf
        self.vs.verify = probe_verify

    def set_position(self, clock_ms):
        from flexstack.geonet.position_vector import LongPositionVector, TST
        self.router.ego_position_vector = LongPositionVector(
            gn_addr=self.router.mib.itsGnLocalGnAddr, tst=TST.set_in_normal_timestamp_milliseconds(clock_ms),
            latitude=self.lat, longitude=self.lon, pai=True)

    def send(self, kind, payload: bytes, clock_ms, its_aid=None, area=None, transport=None, max_hop_limit=None):
        """originate one packet through the real Router; returns the emitted frame(s).
        `area` = (latitude, longitude, a, b) of a circular destination area: the packet goes out as GeoBroadcast (or
        GeoAnycast: `transport="gac"`) towards that area, which need not contain the sender (default for DENMs: 500 m
        around the sender; CAM / VAM are always single-hop broadcasts; a generic message is SHB unless an area is given)"""
        from flexstack.geonet.service_access_point import (GNDataRequest, PacketTransportType, HeaderType,
                                                           GeoBroadcastHST, GeoAnycastHST, Area, CommonNH)
        from flexstack.security.security_profiles import SecurityProfile
        self.set_position(clock_ms)
        self.ll.take()       # frames forwarded earlier (GBC) are not this emission
        prof = {"cam": SecurityProfile.COOPERATIVE_AWARENESS_MESSAGE, "vam": SecurityProfile.VRU_AWARENESS_MESSAGE,
                "other": SecurityProfile.NO_SECURITY,
                "denm": SecurityProfile.DECENTRALIZED_ENVIRONMENTAL_NOTIFICATION_MESSAGE}.get(kind)
        if prof is None:
            raise ValueError(kind)
        aid = its_aid if its_aid is not None else {"cam": 36, "vam": 638, "other": 99, "denm": 37}[kind]
        if kind in ("cam", "vam") or (kind == "other" and area is None):
            req = GNDataRequest(upper_protocol_entity=CommonNH.BTP_B, data=payload, length=len(payload),
                                security_profile=prof, its_aid=aid)
        else:
            lat, lon, a, b = area if area is not None else (self.lat, self.lon, 500, 500)
            if transport == "gac":
                ptt = PacketTransportType(header_type=HeaderType.GEOANYCAST, header_subtype=GeoAnycastHST.GEOANYCAST_CIRCLE)
            else:
                ptt = PacketTransportType(header_type=HeaderType.GEOBROADCAST, header_subtype=GeoBroadcastHST.GEOBROADCAST_CIRCLE)
            req = GNDataRequest(
                upper_protocol_entity=CommonNH.BTP_B, data=payload, length=len(payload), packet_transport_type=ptt,
                area=Area(latitude=lat, longitude=lon, a=a, b=b, angle=0), security_profile=prof, its_aid=aid,
                **({"max_hop_limit": max_hop_limit} if max_hop_limit is not None else {}))
        self.router.gn_data_request(req)
        return self.ll.take()

    def receive(self, frame: bytes, fault=None):
        """hand a frame to the real Router; returns (outcome, gate payloads, indications, confirm or None, exception).
        `fault`: an exception instance the GeoNetworking processing behind the gate raises for THIS frame if it gets
        that far (a failing upper layer / decoder; the receive path must not keep anything of the packet)"""
        self.gate.clear()
        self.inds.clear()
        self.confirms.clear()
        self.upper_fault = fault
        exc = None
        try:
            # gn_data_indicate only wraps process_basic_header in a catch-all (C04's repair); the unwrapped entry
            # keeps the exception class observable, which the model predicts per frame
            self.router.process_basic_header(frame)
        except Exception as e:  # noqa: BLE001 - every exception type is an outcome
            exc = e
        self.upper_fault = None
        gate = list(self.gate)
        conf = self.confirms[-1] if self.confirms else None
        if gate:
            out = "pass"
        elif exc is not None:
            out = "raise:" + type(exc).__name__
        else:
            out = "drop"
        return out, gate, list(self.inds), conf, exc


def frame_tokens(A: "Abs", frame: bytes):
    """abstraction of a GeoNetworking frame for the model's `gate`; None when the basic header is outside the modelled cases"""
    if len(frame) < 4:
        return None
    ver, nh = frame[0] >> 4, frame[0] & 0x0F
    if ver != 1:
        return "V"
    if nh == 0:
        return "O"
    if nh == 1:
        return f"U {A.payload(frame[4:])}"
    if nh == 2:
        dec = decode_signed(frame[4:])
        if dec is None:
            # an envelope that decodes but whose content choice is not signedData (unsecuredData / encryptedData /
            # signedCertificateRequest) carries no signature at all: token `E` (model: never delivered)
            ch = envelope_choice(frame[4:])
            return "E" if ch is not None and ch != "signedData" else "P"
        try:
            return "S " + abs_msg(A, *dec)
        except Exception:  # noqa: BLE001 - e.g. a signer certificate that decodes but does not re-encode
            return "P"
    return None

"""Synchronisation skeletons and aliasing facts of the LDM sources (C16).

An `ast` pass (nothing is imported or executed) writes lean/Generated/LdmShape.lean:

* `skeleton_<Class>_<method> : List String` - the synchronisation-relevant skeleton of the method in SOURCE ORDER:
      "with <lock attr>" … "end"      a `with self.<lock>:` region
      "loop" … "endloop"              a `for` / `while` body
      "call <method>"                 a call `self.m(…)`, `super().m(…)`, `self.<field>….m(…)` of a method that
                                      (transitively, per harness/gen_locks.py) takes a lock
  Statements that neither take a lock nor call a lock-taking method leave no trace, so renaming locals or reordering
  independent statements does not change a skeleton; moving a registry read out of a loop, or in front of another lock
  section, does.  `LdmConc.lean` states the skeletons its multi-block operations assume (`decide`).
* `explicitLockCalls : List String` - `.acquire()` / `.release()` calls (gen_locks.py sees `with` statements only).
* `inplace : List String` - the methods that store into an object FETCHED from the data base (a local name bound to the
  result of `….data_containers.get/all/search(…)`, `get_provider_data`, `get_all_data_containers`,
  `search_data_containers`, `search_data`, or a loop variable over such a result): subscript / attribute assignment,
  `del`, augmented assignment or a mutating container method on it.  The in-memory back-end hands out the stored
  objects themselves, so such a store rewrites the store outside the database lock and every response that already
  contains the object.  Expected: none.
* `userCalls : List (String × List String)` - every invocation of USER-SUPPLIED code (a consumer callback: a call whose
  callee is `<expr>.callback(…)` / `callback(…)` / any name or attribute containing "callback" that is not a method of
  an LDM class, or a local bound to one) with the `with self.<lock>` sections that lexically enclose it, outermost first.  User code may block
  on anything - in particular on another application thread that is itself calling the LDM - so it must run with no
  LDM lock held (`LdmConc.callbacks_outside_locks`; the call chain down to it is checked against the call graph of
  Generated/Locks.lean in `LdmConc.notification_chain_unlocked`).  Expected: one call, in
  `LDMService.process_notifications`, outside every section.
"""
from __future__ import annotations

import ast

import gen_locks
from gen_lean import register, write_if_changed, src

FILES = [t for t in gen_locks.TARGETS if "local_dynamic_map" in t]
SKELETONS = [
    ("LDMService", "attend_subscriptions"), ("LDMService", "attend_subscription"), ("LDMService", "process_notifications"),
    ("LDMService", "delete_subscription"),
    ("LDMService", "del_data_consumer_its_aid"), ("LDMService", "remove_subscription"),
    ("LDMMaintenance", "update_provider_data"), ("LDMMaintenance", "collect_trash"),
    ("LDMMaintenance", "check_and_delete_time_validity"),
    ("LDMMaintenanceThread", "update_provider_data"),
    ("InterfaceLDM3", "add_provider_data"), ("InterfaceLDM3", "update_provider_data"), ("InterfaceLDM3", "delete_provider_data"),
    ("InterfaceLDM3", "deregister_data_provider"),
    ("InterfaceLDM4", "request_data_objects"), ("InterfaceLDM4", "deregister_data_consumer"),
    ("InterfaceLDM4", "unsubscribe_data_consumer"),
]
FETCHERS = {"get", "all", "search", "get_provider_data", "get_all_data_containers", "search_data_containers", "search_data"}
FETCH_RECEIVERS = {"data_containers", "ldm_maintenance", "ldm_service", "self", "super"}


def locking_methods():
    """method NAMES some implementation of which takes a lock, directly or through its callees (gen_locks' call graph)"""
    info = gen_locks.analyse()
    takes = {fn for fn, bl in info["blocks"].items() if any(l for l, _ in bl)}
    takes |= {r[0] for r in info["records"] if r[3]}
    changed = True
    while changed:
        changed = False
        for fn, cl in info["calls"].items():
            if fn not in takes and any(c in takes or l for l, c in cl):
                takes.add(fn)
                changed = True
    classes = gen_locks.parse_all()
    names = set()
    for fn in takes:
        for c in classes:
            if fn.startswith(c + "_") and fn[len(c) + 1:] in classes[c].methods:
                names.add(fn[len(c) + 1:])
    return names


def _recv_root(node):
    """('self' | 'super' | None, last field name) of the receiver expression of a method call"""
    last = None
    while isinstance(node, ast.Attribute):
        if last is None:
            last = node.attr
        node = node.value
    if isinstance(node, ast.Name) and node.id == "self":
        return "self", last
    if isinstance(node, ast.Call) and isinstance(node.func, ast.Name) and node.func.id == "super":
        return "super", last
    return None, last


class Skeleton(ast.NodeVisitor):
    def __init__(self, locking, lock_attrs):
        self.locking, self.lock_attrs, self.out = locking, lock_attrs, []

    def visit_With(self, node):
        opened = 0
        for it in node.items:
            a = gen_locks._self_attr(it.context_expr)
            if a is not None and a in self.lock_attrs:
                self.out.append(f"with {a}")
                opened += 1
            else:
                self.visit(it.context_expr)
        for st in node.body:
            self.visit(st)
        self.out += ["end"] * opened

    def _loop(self, node, head):
        for h in head:
            self.visit(h)
        self.out.append("loop")
        n = len(self.out)
        for st in node.body:
            self.visit(st)
        if len(self.out) == n:
            self.out.pop()               # a loop without synchronisation leaves no trace
        else:
            self.out.append("endloop")
        for st in node.orelse:
            self.visit(st)

    def visit_For(self, node):
        self._loop(node, [node.iter])

    def visit_While(self, node):
        self._loop(node, [node.test])

    def visit_Call(self, node):
        for a in node.args:
            self.visit(a)
        for k in node.keywords:
            self.visit(k.value)
        f = node.func
        if isinstance(f, ast.Attribute):
            root, last = _recv_root(f.value)
            # receivers: `self`, `super()`, or a component field (`self.ldm_maintenance.data_containers`); a method of a
            # plain container attribute (`self.subscriptions.remove`) is an access, not a call
            if root is not None and f.attr in self.locking and (last is None or last in gen_locks.FIELD_TYPES):
                self.visit(f.value) if not isinstance(f.value, (ast.Name, ast.Attribute)) else None
                self.out.append(f"call {f.attr}")
                return
        self.visit(f)

    def visit_FunctionDef(self, node):    # nested defs run in the same thread when called
        for st in node.body:
            self.visit(st)


class InPlace(ast.NodeVisitor):
    """stores into objects fetched from the data base"""

    def __init__(self):
        self.fetched, self.hits = set(), []

    def _is_fetch(self, e):
        if isinstance(e, ast.Call) and isinstance(e.func, ast.Attribute) and e.func.attr in FETCHERS:
            root, last = _recv_root(e.func.value)
            return root is not None and (last in FETCH_RECEIVERS or last is None)
        if isinstance(e, ast.Name):
            return e.id in self.fetched
        if isinstance(e, ast.Subscript):              # an element of a fetched tuple
            return self._is_fetch(e.value)
        return False

    def _bind(self, target, value):
        if isinstance(target, ast.Name):
            if self._is_fetch(value):
                self.fetched.add(target.id)
            else:
                self.fetched.discard(target.id)
        elif isinstance(target, (ast.Tuple, ast.List)):
            for t in target.elts:
                self._bind(t, value)

    def _store(self, t, why):
        base = t
        while isinstance(base, (ast.Subscript, ast.Attribute)):
            base = base.value
        if isinstance(t, (ast.Subscript, ast.Attribute)) and isinstance(base, ast.Name) and base.id in self.fetched:
            self.hits.append(f"{why} {base.id}")

    def visit_Assign(self, node):
        self.generic_visit(node)
        for t in node.targets:
            self._store(t, "assign")
            self._bind(t, node.value)

    def visit_AugAssign(self, node):
        self.generic_visit(node)
        self._store(node.target, "augassign")

    def visit_Delete(self, node):
        for t in node.targets:
            self._store(t, "del")

    def visit_For(self, node):
        self._bind(node.target, node.iter)
        self.generic_visit(node)

    def visit_Call(self, node):
        self.generic_visit(node)
        f = node.func
        if isinstance(f, ast.Attribute) and f.attr in gen_locks.MUTATORS:
            base = f.value
            while isinstance(base, (ast.Subscript, ast.Attribute)):
                base = base.value
            if isinstance(base, ast.Name) and base.id in self.fetched:
                self.hits.append(f"{f.attr}() on {base.id}")


OPTIONAL_FETCHERS = {"get", "get_provider_data"}       # single-object look-ups: answer None when the id is not stored


class OptionalUse:
    """uses (`x[...]`, `x.attr`, `for … in x`) of a local bound to the answer of a single-object data-base look-up that are
    NOT dominated by a test that the answer is not None.  Between an existence check and the look-up (two lock sections)
    another thread may remove the object, so the look-up of an id that `exists()` has just confirmed can still answer
    None: an unguarded use raises TypeError into the caller.  Flow-sensitive in the usual small way: `if x is not None
    [and …]:` body, `if x is None: return/raise/continue/break` fall-through, `and` / `or` chains left to right, `not`."""

    def __init__(self):
        self.optional, self.hits = set(), []

    def _is_opt_fetch(self, e):
        if isinstance(e, ast.Call) and isinstance(e.func, ast.Attribute) and e.func.attr in OPTIONAL_FETCHERS:
            root, last = _recv_root(e.func.value)
            return root is not None and (last in FETCH_RECEIVERS or last is None)
        return False

    # -- what a test establishes when it is true (pos) / false (neg)
    def pos(self, t):
        if isinstance(t, ast.Name):
            return {t.id}
        if isinstance(t, ast.Compare) and len(t.ops) == 1 and isinstance(t.left, ast.Name) and \
                isinstance(t.comparators[0], ast.Constant) and t.comparators[0].value is None:
            return {t.left.id} if isinstance(t.ops[0], (ast.IsNot, ast.NotEq)) else set()
        if isinstance(t, ast.BoolOp) and isinstance(t.op, ast.And):
            return set().union(*[self.pos(v) for v in t.values])
        if isinstance(t, ast.UnaryOp) and isinstance(t.op, ast.Not):
            return self.neg(t.operand)
        return set()

    def neg(self, t):
        if isinstance(t, ast.Compare) and len(t.ops) == 1 and isinstance(t.left, ast.Name) and \
                isinstance(t.comparators[0], ast.Constant) and t.comparators[0].value is None:
            return {t.left.id} if isinstance(t.ops[0], (ast.Is, ast.Eq)) else set()
        if isinstance(t, ast.BoolOp) and isinstance(t.op, ast.Or):
            return set().union(*[self.neg(v) for v in t.values])
        if isinstance(t, ast.UnaryOp) and isinstance(t.op, ast.Not):
            return self.pos(t.operand)
        return set()

    def expr(self, e, g):
        """record the unguarded uses inside expression `e` evaluated where the names `g` are known to be not None"""
        if e is None:
            return
        if isinstance(e, ast.BoolOp):
            g2 = set(g)
            for v in e.values:
                self.expr(v, g2)
                g2 |= self.pos(v) if isinstance(e.op, ast.And) else self.neg(v)
            return
        if isinstance(e, ast.IfExp):
            self.expr(e.test, g)
            self.expr(e.body, g | self.pos(e.test))
            self.expr(e.orelse, g | self.neg(e.test))
            return
        if isinstance(e, (ast.Subscript, ast.Attribute)) and isinstance(e.value, ast.Name) and \
                e.value.id in self.optional and e.value.id not in g:
            what = "subscript" if isinstance(e, ast.Subscript) else f"attribute {e.attr}"
            self.hits.append(f"{what} of {e.value.id} line {e.lineno}")
        if isinstance(e, (ast.ListComp, ast.SetComp, ast.GeneratorExp, ast.DictComp)):
            for c in e.generators:
                self._iter(c.iter, g)
        for ch in ast.iter_child_nodes(e):
            if isinstance(ch, ast.expr):
                self.expr(ch, g)
            elif isinstance(ch, ast.comprehension):
                self.expr(ch.iter, g)
                for i in ch.ifs:
                    self.expr(i, g)
            elif isinstance(ch, ast.keyword):
                self.expr(ch.value, g)

    def _iter(self, it, g):
        if isinstance(it, ast.Name) and it.id in self.optional and it.id not in g:
            self.hits.append(f"iteration over {it.id} line {it.lineno}")

    @staticmethod
    def _exits(body):
        return bool(body) and isinstance(body[-1], (ast.Return, ast.Raise, ast.Continue, ast.Break))

    def _bind(self, target, value, g):
        if isinstance(target, ast.Name):
            g.discard(target.id)
            if self._is_opt_fetch(value) or (isinstance(value, ast.Name) and value.id in self.optional):    # look-up or alias
                if isinstance(value, ast.Name) and value.id in g:
                    g.add(target.id)
                self.optional.add(target.id)
            else:
                self.optional.discard(target.id)
        elif isinstance(target, (ast.Tuple, ast.List)):
            for t in target.elts:
                self._bind(t, None, g)

    def block(self, body, g):
        """returns the guard set that holds after the block"""
        g = set(g)
        for st in body:
            if isinstance(st, ast.If):
                self.expr(st.test, g)
                self.block(st.body, g | self.pos(st.test))
                self.block(st.orelse, g | self.neg(st.test))
                if self._exits(st.body):
                    g |= self.neg(st.test)
                if self._exits(st.orelse):
                    g |= self.pos(st.test)
            elif isinstance(st, (ast.Assign, ast.AnnAssign)):
                self.expr(st.value, g)
                for t in (st.targets if isinstance(st, ast.Assign) else [st.target]):
                    if not isinstance(t, ast.Name):
                        self.expr(t, g)
                    self._bind(t, st.value, g)
            elif isinstance(st, (ast.For, ast.AsyncFor)):
                self.expr(st.iter, g)
                self._iter(st.iter, g)
                self._bind(st.target, None, g)
                self.block(st.body, g)
                self.block(st.orelse, g)
            elif isinstance(st, ast.While):
                self.expr(st.test, g)
                self.block(st.body, g | self.pos(st.test))
                self.block(st.orelse, g)
            elif isinstance(st, (ast.With, ast.AsyncWith)):
                for it in st.items:
                    self.expr(it.context_expr, g)
                g = self.block(st.body, g)
            elif isinstance(st, ast.Try):
                self.block(st.body, g)
                for h in st.handlers:
                    self.block(h.body, g)
                self.block(st.orelse, g)
                self.block(st.finalbody, g)
            elif isinstance(st, (ast.FunctionDef, ast.AsyncFunctionDef)):
                self.block(st.body, g)
            else:
                for ch in ast.iter_child_nodes(st):
                    if isinstance(ch, ast.expr):
                        self.expr(ch, g)
        return g


def optional_derefs():
    """(method: unguarded use) for every method of the LDM sources; expected: none"""
    out = []
    for rel in FILES:
        for n in ast.parse(src(rel)).body:
            if not isinstance(n, ast.ClassDef):
                continue
            for m in n.body:
                if isinstance(m, (ast.FunctionDef, ast.AsyncFunctionDef)):
                    ou = OptionalUse()
                    ou.block(m.body, set())
                    base = m.lineno
                    out += [f"{n.name}_{m.name}: " + " ".join(h.split(" line ")[0:1]) + f" (+{int(h.split(' line ')[1]) - base})"
                            for h in ou.hits]
    return sorted(out)


class UserCalls(ast.NodeVisitor):
    """invocations of user-supplied callables with the lexically enclosing `with self.<lock>` sections"""

    def __init__(self, lock_attrs, own_methods):
        self.lock_attrs, self.own, self.stack, self.hits = lock_attrs, own_methods, [], []
        self.aliases = set()          # locals bound to a user callable (`notify = subscription.callback`)

    @staticmethod
    def _names_callback(e):
        name = e.attr if isinstance(e, ast.Attribute) else e.id if isinstance(e, ast.Name) else None
        return name is not None and "callback" in name.lower()

    def visit_Assign(self, node):
        self.generic_visit(node)
        if self._names_callback(node.value) or (isinstance(node.value, ast.Name) and node.value.id in self.aliases):
            for t in node.targets:
                if isinstance(t, ast.Name):
                    self.aliases.add(t.id)

    def visit_With(self, node):
        opened = 0
        for it in node.items:
            a = gen_locks._self_attr(it.context_expr)
            if a is not None and a in self.lock_attrs:
                self.stack.append(a)
                opened += 1
            else:
                self.visit(it.context_expr)
        for st in node.body:
            self.visit(st)
        for _ in range(opened):
            self.stack.pop()

    def visit_Call(self, node):
        f = node.func
        name = f.attr if isinstance(f, ast.Attribute) else f.id if isinstance(f, ast.Name) else None
        if name is not None and ("callback" in name.lower() or (isinstance(f, ast.Name) and name in self.aliases)):
            root = _recv_root(f.value)[0] if isinstance(f, ast.Attribute) else None
            own = isinstance(f, ast.Attribute) and root is not None and isinstance(f.value, (ast.Name, ast.Call)) and name in self.own
            if not own:
                self.hits.append(list(self.stack))
        self.generic_visit(node)


def user_calls():
    classes = gen_locks.parse_all()
    lock_attrs = {a for ci in classes.values() for a in ci.locks}
    own = {m for ci in classes.values() for m in ci.methods}
    out = []
    for rel in FILES:
        for n in ast.parse(src(rel)).body:
            if not isinstance(n, ast.ClassDef):
                continue
            for m in n.body:
                if isinstance(m, (ast.FunctionDef, ast.AsyncFunctionDef)):
                    uc = UserCalls(lock_attrs, own)
                    for st in m.body:
                        uc.visit(st)
                    out += [(f"{n.name}_{m.name}", st_) for st_ in uc.hits]
    return sorted(out)


def analyse():
    locking = locking_methods()
    classes = {}
    for rel in FILES:
        for n in ast.parse(src(rel)).body:
            if isinstance(n, ast.ClassDef):
                classes[n.name] = n
    lock_attrs = {a for ci in gen_locks.parse_all().values() for a in ci.locks}
    skel, inplace = {}, []
    for cname, cnode in classes.items():
        for m in cnode.body:
            if not isinstance(m, (ast.FunctionDef, ast.AsyncFunctionDef)):
                continue
            if (cname, m.name) in SKELETONS:
                sk = Skeleton(locking, lock_attrs)
                for st in m.body:
                    sk.visit(st)
                skel[f"{cname}_{m.name}"] = sk.out
            ip = InPlace()
            for st in m.body:
                ip.visit(st)
            if ip.hits:
                inplace.append(f"{cname}_{m.name}: " + "; ".join(ip.hits))
    for c, m in SKELETONS:
        skel.setdefault(f"{c}_{m}", ["<missing>"])
    return skel, sorted(inplace)


def explicit_lock_calls():
    """`x.acquire(…)` / `x.release()` calls in the LDM sources: gen_locks.py derives lock sections from `with` statements
    only, so an explicit acquire would be invisible to the lock map.  Expected: none."""
    out = []
    for rel in FILES:
        for n in ast.walk(ast.parse(src(rel))):
            if isinstance(n, ast.Call) and isinstance(n.func, ast.Attribute) and n.func.attr in ("acquire", "release"):
                out.append(f"{rel.split('/')[-1]}:{n.lineno} {n.func.attr}")
    return sorted(out)


def _strs(xs):
    return "[" + ", ".join('"%s"' % x.replace('"', "'") for x in xs) + "]"


@register(props=["C16"])
def gen_ldm_shape():
    skel, inplace = analyse()
    o = ["namespace Generated.LdmShape\n"]
    for name in sorted(skel):
        o.append(f"def skeleton_{name} : List String := {_strs(skel[name])}\n")
    o.append("/-- methods that store into an object fetched from the data base (expected: none) -/\n")
    o.append(f"def inplace : List String := {_strs(inplace)}\n")
    o.append("/-- explicit lock.acquire()/release() calls (invisible to the `with`-based lock map; expected: none) -/\n")
    o.append(f"def explicitLockCalls : List String := {_strs(explicit_lock_calls())}\n")
    o.append("/-- uses of the answer of a single-object look-up (`get`, `get_provider_data`) not dominated by a not-None test: the\n"
             "object may be removed between an existence check and the look-up (expected: none) -/\n")
    o.append(f"def optionalDerefs : List String := {_strs(optional_derefs())}\n")
    o.append("/-- invocations of user-supplied code (consumer callbacks): (method, enclosing `with self.<lock>` sections) -/\n")
    o.append("def userCalls : List (String × List String) := ["
             + ", ".join(f'("{fn}", {_strs(st)})' for fn, st in user_calls()) + "]\n")
    o.append("end Generated.LdmShape\n")
    write_if_changed("LdmShape.lean", "".join(o))


if __name__ == "__main__":
    sk, ip = analyse()
    for k in sorted(sk):
        print(k, sk[k])
    print("inplace", ip)
    print("userCalls", user_calls())
    print("optionalDerefs", optional_derefs())

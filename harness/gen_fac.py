"""Facts regenerated from the facilities sources for C10/C11 (DESIGN §3.B).

* Generated/FacConstants.lean : timing constants of the CAM / VAM transmission management, ITS epoch, the
  dynamics thresholds (read from the comparison literals of `_check_dynamics` by an `ast` pass, from
  `vam_constants` by import), the literal guards of the report->DE mappings (read by `ast` from the
  `fullfill_*` / `create_*` functions).
* Generated/Asn1Ranges.lean   : `Name ::= INTEGER {named numbers} (lo..hi)` of the data elements the mappings
  write, parsed from the ASN.1 text the repo's coders compile (CAM, VAM and DENM module strings), plus the
  names of the AltitudeConfidence enumeration.
Theorems in Props/C10, Props/C11 discharge side conditions on these values by `decide`.
"""
from __future__ import annotations

import ast
import re
from fractions import Fraction

import gen_lean
from gen_lean import write_if_changed, src

CAM_TM = "facilities/ca_basic_service/cam_transmission_management.py"
VAM_TM = "facilities/vru_awareness_service/vam_transmission_management.py"
EVA = "applications/road_hazard_signalling_service/emergency_vehicle_approaching_service.py"


def _scaled(x, k, what):
    fr = Fraction(str(x)) * k
    if fr.denominator != 1:
        raise ValueError(f"{what}={x} is not a multiple of 1/{k}")
    return int(fr)


def _func(tree, cls, name):
    for node in ast.walk(tree):
        if isinstance(node, ast.ClassDef) and node.name == cls:
            for f in node.body:
                if isinstance(f, ast.FunctionDef) and f.name == name:
                    return f
    raise ValueError(f"{cls}.{name} not found")


def _cmp_literals(fn):
    """[(op, literal)] of every comparison against a numeric literal inside fn, in source order"""
    out = []
    for node in ast.walk(fn):
        if isinstance(node, ast.Compare) and len(node.ops) == 1:
            c = node.comparators[0]
            if isinstance(c, ast.UnaryOp) and isinstance(c.op, ast.USub) and isinstance(c.operand, ast.Constant):
                val = -c.operand.value
            elif isinstance(c, ast.Constant) and isinstance(c.value, (int, float)) and not isinstance(c.value, bool):
                val = c.value
            else:
                continue
            out.append((node.lineno, node.col_offset, type(node.ops[0]).__name__, val))
    out.sort()
    return [(o, v) for _, _, o, v in out]


def _assigned_ints(fn):
    """integer literals assigned (`x[...] = <int>`) inside fn, in source order"""
    out = []
    for node in ast.walk(fn):
        if isinstance(node, ast.Assign):
            v = node.value
            if isinstance(v, ast.UnaryOp) and isinstance(v.op, ast.USub) and isinstance(v.operand, ast.Constant):
                out.append((node.lineno, -v.operand.value))
            elif isinstance(v, ast.Constant) and isinstance(v.value, int) and not isinstance(v.value, bool):
                out.append((node.lineno, v.value))
    out.sort()
    return [v for _, v in out]


def _mult_literals(fn):
    """numeric literals used as right operand of `*` inside fn (scale factors), distinct, sorted"""
    s = set()
    for node in ast.walk(fn):
        if isinstance(node, ast.BinOp) and isinstance(node.op, ast.Mult) and isinstance(node.right, ast.Constant):
            s.add(node.right.value)
    return sorted(s)


@gen_lean.register(props=["C10", "C11"])
def gen_fac_constants():
    from flexstack.facilities.ca_basic_service import cam_transmission_management as ctm
    from flexstack.facilities.vru_awareness_service import vam_constants as vc
    from flexstack.utils import time_service as ts

    body = "namespace Generated.Fac\n"

    def nat(name, v):
        nonlocal body
        if isinstance(v, bool) or int(v) != v or v < 0:
            raise ValueError(f"{name}={v!r} is not a natural number")
        body += f"def {name} : Nat := {int(v)}\n"

    def integer(name, v):
        nonlocal body
        if int(v) != v:
            raise ValueError(f"{name}={v!r} is not an integer")
        body += f"def {name} : Int := {int(v)}\n"

    for n in ("T_GEN_CAM_MIN", "T_GEN_CAM_MAX", "T_CHECK_CAM_GEN", "T_GEN_CAM_DCC", "N_GEN_CAM_DEFAULT",
              "T_GEN_CAM_LF_MS", "T_GEN_CAM_SPECIAL_MS", "T_GEN_CAM_VLF_MS"):
        nat(n, getattr(ctm, n))
    nat("ITS_EPOCH_MS", ts.ITS_EPOCH_MS)
    nat("ELAPSED_MILLISECONDS", ts.ELAPSED_MILLISECONDS)
    for n in ("T_GENVAMMIN", "T_GENVAMMAX", "T_GENVAM_LFMIN", "T_CHECKVAMGEN", "T_GENVAM_DCC"):
        nat(n, getattr(vc, n))
    nat("VAM_POS_THRESHOLD", vc.MINREFERENCEPOINTPOSITIONCHANGETHRESHOLD)           # as used by the code: degrees (!)
    nat("VAM_SPEED_THRESHOLD_MMS", _scaled(vc.MINGROUNDSPEEDCHANGETHRESHOLD, 1000, "MINGROUNDSPEEDCHANGETHRESHOLD"))
    nat("VAM_HEADING_THRESHOLD_CDEG", _scaled(vc.MINGROUNDVELOCITYORIENTATIONCHANGETHRESHOLD, 100, "MINGROUNDVELOCITYORIENTATIONCHANGETHRESHOLD"))

    # CAM dynamics thresholds: the literals compared with `>` in _check_dynamics: 180.0 (wrap), 4.0, 4.0, 0.5
    tree = ast.parse(src(CAM_TM))
    lits = _cmp_literals(_func(tree, "CAMTransmissionManagement", "_check_dynamics"))
    if [o for o, _ in lits] != ["Gt"] * 4:
        raise ValueError(f"_check_dynamics: unexpected comparisons {lits}")
    nat("CAM_HEADING_WRAP_CDEG", _scaled(lits[0][1], 100, "wrap"))
    nat("CAM_HEADING_THRESHOLD_CDEG", _scaled(lits[1][1], 100, "heading threshold"))
    nat("CAM_POS_THRESHOLD_MM", _scaled(lits[2][1], 1000, "position threshold"))
    nat("CAM_SPEED_THRESHOLD_MMS", _scaled(lits[3][1], 1000, "speed threshold"))

    # report -> DE mapping literals (CAM, VAM, DENM event position).  Comparison operators are emitted as codes
    # (OPS) so that the model interprets whatever guard the source has.
    OPS = {"Lt": 0, "LtE": 1, "Gt": 2, "GtE": 3}
    body += "/-- comparison operator codes: 0 `<`, 1 `<=`, 2 `>`, 3 `>=` -/\n"

    def guard(name, g):
        nat(f"{name}_OP", OPS[g[0]])
        integer(f"{name}_GUARD", g[1])

    for tag, path, cls in (("CAM", CAM_TM, "CooperativeAwarenessMessage"), ("VAM", VAM_TM, "VAMMessage")):
        t = ast.parse(src(path))
        fb = _func(t, cls, "fullfill_basic_container_with_tpv_data")
        guards = _cmp_literals(fb)          # [lower guard, upper guard]
        assigned = _assigned_ints(fb)       # [neg code, pos code]
        if len(guards) != 2 or len(assigned) != 2 or any(o not in OPS for o, _ in guards):
            raise ValueError(f"{cls}.fullfill_basic_container_with_tpv_data: unexpected shape {guards} {assigned}")
        guard(f"{tag}_ALT_LO", guards[0])
        guard(f"{tag}_ALT_HI", guards[1])
        integer(f"{tag}_ALT_LO_CODE", assigned[0])
        integer(f"{tag}_ALT_HI_CODE", assigned[1])
        if _mult_literals(fb) != [100, 10000000]:
            raise ValueError(f"{cls}: unexpected scale factors {_mult_literals(fb)}")
        fh = _func(t, cls, "fullfill_high_frequency_container_with_tpv_data")
        g = _cmp_literals(fh)
        a = _assigned_ints(fh)
        if len(g) != 1 or g[0][0] not in OPS or len(a) != 1 or _mult_literals(fh) != [10, 100]:
            raise ValueError(f"{cls}.fullfill_high_frequency_container_with_tpv_data: unexpected shape {g} {a}")
        guard(f"{tag}_SPEED", g[0])
        integer(f"{tag}_SPEED_CODE", a[0])
        mods = sorted({n.right.value for n in ast.walk(fh) if isinstance(n, ast.BinOp) and isinstance(n.op, ast.Mod)
                       and isinstance(n.right, ast.Constant)})
        nat(f"{tag}_HEADING_MOD", mods[0] if len(mods) == 1 else 0)      # 0 = heading value not reduced
        nat(f"{tag}_ELLIPSE_OWN", 1 if any(isinstance(f, ast.FunctionDef) and f.name == "create_position_confidence"
                                            for c in t.body if isinstance(c, ast.ClassDef) and c.name == cls for f in c.body) else 0)
    t = ast.parse(src(CAM_TM))
    fhc = _func(t, "CooperativeAwarenessMessage", "create_heading_confidence")
    g = _cmp_literals(fhc)
    a = _assigned_ints(fhc)
    if len(g) != 1 or g[0][0] not in OPS or a != [126]:
        raise ValueError(f"create_heading_confidence: unexpected shape {g} {a}")
    nat("HEADING_CONF_OP", OPS[g[0][0]])
    integer("HEADING_CONF_GUARD_X10", _scaled(g[0][1], 10, "epd guard"))
    integer("HEADING_CONF_OUT_OF_RANGE", a[0])
    floors = [n.args[0].value for n in ast.walk(fhc) if isinstance(n, ast.Call) and getattr(n.func, "id", "") == "max"
              and n.args and isinstance(n.args[0], ast.Constant)]
    integer("HEADING_CONF_FLOOR", floors[0] if len(floors) == 1 else 0)   # 0 = no lower clamp
    # semi-axis length: `create_semi_axis_length` (absent in the unrepaired code -> no clamp)
    try:
        fsa = _func(t, "CooperativeAwarenessMessage", "create_semi_axis_length")
        g = _cmp_literals(fsa)
        rets = sorted(n.value.value for n in ast.walk(fsa) if isinstance(n, ast.Return) and isinstance(n.value, ast.Constant))
        floors = [n.args[0].value for n in ast.walk(fsa) if isinstance(n, ast.Call) and getattr(n.func, "id", "") == "max"
                  and n.args and isinstance(n.args[0], ast.Constant)]
        if len(g) != 1 or g[0][0] not in OPS or len(rets) != 1 or len(floors) != 1:
            raise ValueError(f"create_semi_axis_length: unexpected shape {g} {rets} {floors}")
        nat("SEMI_AXIS_CLAMPED", 1)
        guard("SEMI_AXIS", g[0])
        integer("SEMI_AXIS_CODE", rets[0])
        integer("SEMI_AXIS_FLOOR", floors[0])
    except ValueError as e:
        if "not found" not in str(e):
            raise
        nat("SEMI_AXIS_CLAMPED", 0)
        nat("SEMI_AXIS_OP", 2)
        integer("SEMI_AXIS_GUARD", 0)
        integer("SEMI_AXIS_CODE", 0)
        integer("SEMI_AXIS_FLOOR", 0)
    # altitude-confidence ladder: (exact value of the double key, name) read from the dict literal
    ladder = re.findall(r"^\s*([0-9.]+):\s*\"(alt-[0-9-]+)\"", src(CAM_TM).split("def create_altitude_confidence(self, epv: float)")[-1], re.M)
    body += "def ALT_CONF_LADDER : List (Rat × String) := [" + ", ".join(
        f"({gen_lean.lean_rat(float(k))}, \"{n}\")" for k, n in ladder) + "]\n"
    # DENM event position (EmergencyVehicleApproachingService.trigger_denm_sending)
    t = ast.parse(src(EVA))
    f = _func(t, "EmergencyVehicleApproachingService", "trigger_denm_sending")
    g = _cmp_literals(f)
    a = _assigned_ints(f)
    if len(g) != 2 or len(a) != 2 or any(o not in OPS for o, _ in g):
        raise ValueError(f"trigger_denm_sending: unexpected shape {g} {a}")
    guard("DENM_ALT_LO", g[0])
    guard("DENM_ALT_HI", g[1])
    integer("DENM_ALT_LO_CODE", a[0])
    integer("DENM_ALT_HI_CODE", a[1])
    body += "end Generated.Fac\n"
    write_if_changed("FacConstants.lean", body)


DE_NAMES = ["Latitude", "Longitude", "AltitudeValue", "HeadingValue", "HeadingConfidence", "SpeedValue",
            "SpeedConfidence", "SemiAxisLength", "Wgs84AngleValue", "Wgs84AngleConfidence", "GenerationDeltaTime",
            "TimestampIts", "StationId"]

_INT_RE = re.compile(r"^\s*(\w[\w-]*)\s*::=\s*INTEGER\s*(\{[^}]*\})?\s*\(\s*(-?\d+)\s*\.\.\s*(-?\d+)\s*[,)]", re.M)
_NAMED_RE = re.compile(r"([A-Za-z][\w-]*)\s*\(\s*(-?\d+)\s*\)")


def parse_integers(text):
    """{name: (lo, hi, {named: value})} for every `Name ::= INTEGER {…} (lo..hi)` in an ASN.1 module text"""
    out = {}
    for m in _INT_RE.finditer(text):
        named = dict((k.replace("-", "_"), int(v)) for k, v in _NAMED_RE.findall(m.group(2) or ""))
        out.setdefault(m.group(1), (int(m.group(3)), int(m.group(4)), named))
    return out


def parse_enum(text, name):
    m = re.search(r"^\s*" + re.escape(name) + r"\s*::=\s*ENUMERATED\s*\{([^}]*)\}", text, re.M)
    if not m:
        raise ValueError(f"ENUMERATED {name} not found")
    return [(k, int(v)) for k, v in re.findall(r"([A-Za-z][\w-]*)\s*\(\s*(\d+)\s*\)", m.group(1))]


def asn1_texts():
    from flexstack.facilities.ca_basic_service.cam_asn1 import CAM_ASN1_DESCRIPTIONS
    from flexstack.facilities.vru_awareness_service.vam_asn1 import VAM_ASN1_DESCRIPTIONS
    from flexstack.facilities.decentralized_environmental_notification_service.asn1.denm_asn1 import DENM_ASN1_DESCRIPTIONS
    return {"Cam": CAM_ASN1_DESCRIPTIONS, "Vam": VAM_ASN1_DESCRIPTIONS, "Denm": DENM_ASN1_DESCRIPTIONS}


@gen_lean.register(props=["C11"])
def gen_asn1_ranges():
    body = ""
    for mod, text in asn1_texts().items():
        ints = parse_integers(text)
        body += f"namespace Generated.Asn1.{mod}\n"
        for n in DE_NAMES:
            if n not in ints:
                raise ValueError(f"{mod}: INTEGER type {n} not found in the ASN.1 text")
            lo, hi, named = ints[n]
            body += f"def {n}_lo : Int := {lo}\ndef {n}_hi : Int := {hi}\n"
            for k, v in sorted(named.items(), key=lambda kv: kv[1]):
                body += f"def {n}_{k} : Int := {v}\n"
        en = parse_enum(text, "AltitudeConfidence")
        body += "def AltitudeConfidence_names : List String := [" + ", ".join(f"\"{k}\"" for k, _ in en) + "]\n"
        body += f"end Generated.Asn1.{mod}\n"
    write_if_changed("Asn1Ranges.lean", body)

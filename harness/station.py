"""A complete real station (GN router + BTP router + facilities) on a capturing / in-memory link layer."""
from __future__ import annotations

import common  # noqa: F401
import realstack as rs

from flexstack.btp.router import Router as BTPRouter
from flexstack.geonet.mib import MIB
from flexstack.geonet.router import Router as GNRouter
from flexstack.geonet.position_vector import LongPositionVector, TST


def install_asn1_cache():
    """asn1tools.compile_string is pure but slow (seconds per facility coder); memoise it so that building many
    stations stays cheap.  The compiled codec objects are stateless."""
    import asn1tools
    if getattr(asn1tools.compile_string, "_verif_cached", False):
        return
    orig = asn1tools.compile_string
    cache = {}

    def compile_string(string, codec="ber", *a, **k):
        key = (string, codec, a, tuple(sorted(k.items())))
        if key not in cache:
            cache[key] = orig(string, codec, *a, **k)
        return cache[key]
    compile_string._verif_cached = True
    asn1tools.compile_string = compile_string


install_asn1_cache()


def make_ldm(lat=415000000, lon=21000000):
    from flexstack.facilities.local_dynamic_map.factory import LDMFactory
    from flexstack.facilities.local_dynamic_map.ldm_classes import Location
    loc = Location.initializer(latitude=lat, longitude=lon)
    return LDMFactory().create_ldm(loc, ldm_maintenance_type="Reactive", ldm_service_type="Reactive",
                                   ldm_database_type="Dictionary")


class Station:
    def __init__(self, idx, clock, facilities=("ca", "den", "vru"), with_ldm=True, lat=415000000, lon=21000000,
                 station_id=None, **mibkw):
        self.idx = idx
        self.mib = MIB(itsGnLocalGnAddr=rs.gn_addr(idx), **mibkw)
        self.gn = GNRouter(self.mib)
        self.ll = rs.CaptureLL()
        self.gn.link_layer = self.ll
        now_tst = TST.set_in_normal_timestamp_milliseconds(clock.ms)
        self.gn.ego_position_vector = LongPositionVector(gn_addr=self.mib.itsGnLocalGnAddr, tst=now_tst,
                                                         latitude=lat, longitude=lon, pai=True)
        self.btp = BTPRouter(self.gn)
        self.gn.register_indication_callback(self.btp.btp_data_indication)
        self.ldm = make_ldm(lat, lon) if with_ldm else None
        self.received = []          # (service, decoded message) handed to application callbacks
        self.port_hits = []         # (port, BTPDataIndication)
        sid = station_id if station_id is not None else 1000 + idx
        if "ca" in facilities:
            from flexstack.facilities.ca_basic_service.ca_basic_service import CooperativeAwarenessBasicService
            from flexstack.facilities.ca_basic_service.cam_transmission_management import VehicleData
            vd = VehicleData(station_id=sid, station_type=5, drive_direction="forward",
                             vehicle_length={"vehicleLengthValue": 1023, "vehicleLengthConfidenceIndication": "unavailable"},
                             vehicle_width=62)
            self.vehicle_data = vd
            self.ca = CooperativeAwarenessBasicService(btp_router=self.btp, vehicle_data=vd, ldm=self.ldm)
            try:
                self.ca.cam_reception_management.add_application_callback(lambda m: self.received.append(("cam", m)))
            except AttributeError:
                pass
        if "vru" in facilities:
            from flexstack.facilities.vru_awareness_service.vru_awareness_service import VRUAwarenessService
            from flexstack.facilities.vru_awareness_service.vam_transmission_management import DeviceDataProvider
            self.vru = VRUAwarenessService(btp_router=self.btp,
                                           device_data_provider=DeviceDataProvider(station_id=sid, station_type=1),
                                           ldm=self.ldm)
        if "den" in facilities:
            from flexstack.facilities.decentralized_environmental_notification_service.den_service import (
                DecentralizedEnvironmentalNotificationService)
            from flexstack.facilities.ca_basic_service.cam_transmission_management import VehicleData
            vd = getattr(self, "vehicle_data", None) or VehicleData(station_id=sid, station_type=5)
            self.den = DecentralizedEnvironmentalNotificationService(btp_router=self.btp, vehicle_data=vd, ldm=self.ldm)
        # wrap the port callbacks so handler invocations are observable
        for port, cb in list(self.btp.pre_indication_callbacks.items()):
            self.btp.pre_indication_callbacks[port] = self._wrap(port, cb)
        self.btp.freeze_callbacks()

    def _wrap(self, port, cb):
        def w(ind):
            self.port_hits.append((port, ind))
            return cb(ind)
        return w

    def loct_snapshot(self):
        out = []
        for addr, e in self.gn.location_table.loc_t.items():
            pv = e.position_vector
            out.append((addr.encode().hex(), pv.tst.msec, pv.latitude, pv.longitude, bool(e.is_neighbour),
                        bool(e.ls_pending), tuple(e.dpl_deque)))
        return sorted(out)


def tpv_at(clock, lat=41.5, lon=2.1, speed=10.0, track=90.0, **extra):
    import datetime
    t = datetime.datetime.fromtimestamp(clock.ms / 1000.0, datetime.timezone.utc)
    d = {"class": "TPV", "mode": 3, "time": t.strftime("%Y-%m-%dT%H:%M:%S.") + f"{t.microsecond // 1000:03d}Z",
         "lat": lat, "lon": lon, "alt": 100.0, "altHAE": 100.0, "speed": speed, "track": track,
         "epx": 1.0, "epy": 1.0, "epv": 1.0, "epd": 1.0, "eps": 0.5, "climb": 0.0}
    d.update(extra)
    return d


def emit_cam(st, clock, **kw):
    from flexstack.facilities.ca_basic_service.cam_transmission_management import CooperativeAwarenessMessage
    cam = CooperativeAwarenessMessage()
    cam.fullfill_with_vehicle_data(st.vehicle_data)
    cam.fullfill_with_tpv_data(tpv_at(clock, **kw))
    st.ca.cam_transmission_management._send_cam(cam)
    return st.ll.take()


def emit_vam(st, clock, **kw):
    from flexstack.facilities.vru_awareness_service.vam_transmission_management import VAMMessage
    vam = VAMMessage()
    vam.fullfill_with_device_data(st.vru.device_data_provider)
    vam.fullfill_with_tpv_data(tpv_at(clock, **kw))
    st.vru.vam_transmission_management.send_next_vam(vam)
    return st.ll.take()


def emit_denm(st, clock, lat=41.5, lon=2.1):
    from flexstack.facilities.decentralized_environmental_notification_service.denm_transmission_management import (
        DecentralizedEnvironmentalNotificationMessage)
    denm = DecentralizedEnvironmentalNotificationMessage()
    denm.fullfill_with_vehicle_data(st.den.vehicle_data)
    pos = denm.denm["denm"]["management"]["eventPosition"]
    pos["latitude"], pos["longitude"] = int(lat * 10**7), int(lon * 10**7)
    st.den.denm_transmission_management.transmit_denm(denm)
    return st.ll.take()

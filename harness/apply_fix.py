#!/venv/bin/python
"""lead tool: apply fixes/<name>.diff to /repo as one `fix:` commit after the baseline suite passes with it.
usage: apply_fix.py <name> [<name> ...]   (stops at the first failure, leaving /repo clean)"""
import os, subprocess, sys
VERIF = os.path.dirname(os.path.dirname(os.path.abspath(__file__)))

def sh(cmd):
    return subprocess.run(cmd, shell=True, capture_output=True, text=True)

for name in sys.argv[1:]:
    diff = os.path.join(VERIF, "fixes", name + ".diff")
    msg = os.path.join(VERIF, "fixes", name + ".msg")
    if sh("git -C /repo status --porcelain --untracked-files=no").stdout.strip():
        print("repo dirty"); sys.exit(1)
    r = sh(f"git -C /repo apply --whitespace=nowarn {diff}")
    if r.returncode != 0:
        r = sh(f"git -C /repo apply --3way --whitespace=nowarn {diff}")
        if r.returncode != 0:
            print(f"{name}: does not apply: {r.stderr[:400]}"); sh("git -C /repo checkout -- . ; git -C /repo reset -q"); sys.exit(1)
    b = sh(f"/venv/bin/python {VERIF}/harness/baseline_off.py")
    if b.returncode != 0:
        print(f"{name}: baseline broken:\n{b.stdout[-800:]}"); sh("git -C /repo checkout -- . ; git -C /repo reset -q"); sys.exit(1)
    text = open(msg).read().strip()
    if not text.startswith("fix:"):
        text = "fix: " + text
    open("/tmp/_fixmsg", "w").write(text + "\n")
    c = sh("git -C /repo commit -qa -F /tmp/_fixmsg")
    h = sh("git -C /repo log --oneline -1").stdout.strip()
    print(f"{name}: committed {h[:60]} ({b.stdout.strip().splitlines()[-1]})", flush=True)

"""Generated/GnAddrKey.lean: how `GNAddress` behaves as a dict key (C08; the location table is `dict[GNAddress, …]`).

Read from gn_address.py by an `ast` pass: the dataclass decorator's arguments (frozen / eq / unsafe_hash), whether the
class body defines `__hash__`, the field list, the attributes the hand-written `__eq__` compares.  Probed on the running
class: hash(x) == hash((x.m, x.st, x.mid)), the same address is found again, addresses with the same MID and another
M / ST are `==` but occupy distinct dict slots.  Props.C08.gnaddress_keying_facts pins every value with `decide`, so a
change of the keying (e.g. an explicit `__hash__` over the MID only, which would merge such addresses) re-opens the
obligation.
"""
from __future__ import annotations

import ast

import gen_lean
from gen_lean import write_if_changed, src


def _lean_bool(b):
    return "true" if b else "false"


def _lean_strs(xs):
    return "[" + ", ".join('"' + x + '"' for x in xs) + "]"


def _class(tree, name):
    for n in tree.body:
        if isinstance(n, ast.ClassDef) and n.name == name:
            return n
    raise AssertionError(f"class {name} not found in gn_address.py")


def _dataclass_args(cls):
    for d in cls.decorator_list:
        if isinstance(d, ast.Name) and d.id == "dataclass":
            return {}
        if isinstance(d, ast.Call) and isinstance(d.func, ast.Name) and d.func.id == "dataclass":
            return {k.arg: ast.literal_eval(k.value) for k in d.keywords}
    raise AssertionError(f"{cls.name} is not a dataclass")


def _eq_attrs(cls):
    """attribute paths of `self` that the explicit __eq__ reads in its comparisons (first component only)"""
    for n in cls.body:
        if isinstance(n, ast.FunctionDef) and n.name == "__eq__":
            attrs = []
            for c in ast.walk(n):
                if isinstance(c, ast.Compare):
                    for side in [c.left] + list(c.comparators):
                        x = side
                        while isinstance(x, ast.Attribute):
                            if isinstance(x.value, ast.Name) and x.value.id == "self" and x.attr not in attrs:
                                attrs.append(x.attr)
                            x = x.value
            return attrs
    return None


@gen_lean.register(props=["C08"])
def gen_gnaddr_key():
    tree = ast.parse(src("geonet/gn_address.py"))
    cls = _class(tree, "GNAddress")
    args = _dataclass_args(cls)
    fields = [n.target.id for n in cls.body if isinstance(n, ast.AnnAssign) and isinstance(n.target, ast.Name)]
    explicit_hash = any((isinstance(n, ast.FunctionDef) and n.name == "__hash__") or
                        (isinstance(n, ast.Assign) and any(isinstance(t, ast.Name) and t.id == "__hash__" for t in n.targets))
                        for n in cls.body)
    eq_attrs = _eq_attrs(cls)
    # the probes run the real class
    from flexstack.geonet.gn_address import GNAddress, M, ST, MID
    mids = [MID(bytes([2, 0, 0, 0, 0, i])) for i in (1, 2, 250)]
    every = [GNAddress(m=m, st=st, mid=mid) for mid in mids for m in M for st in ST]
    try:
        p_hash = all(hash(x) == hash(tuple(getattr(x, f) for f in fields)) for x in every)
    except TypeError:
        p_hash = False
    try:
        d = {x: i for i, x in enumerate(every)}
        p_same = all(d.get(GNAddress(m=x.m, st=x.st, mid=MID(bytes(x.mid.mid)))) == i for i, x in enumerate(every))
        p_distinct = len(d) == len(every)
    except TypeError:
        p_same = p_distinct = False
    p_eq = all((x == y) == (x.mid.mid == y.mid.mid) for x in every[::7] for y in every[::5])
    body = "namespace Generated.GnAddrKey\n"
    body += f"def frozen : Bool := {_lean_bool(args.get('frozen', False))}\n"
    body += f"def dataclassEq : Bool := {_lean_bool(args.get('eq', True))}\n"
    body += f"def explicitHash : Bool := {_lean_bool(explicit_hash or args.get('unsafe_hash', False))}\n"
    body += f"def hashFields : List String := {_lean_strs(fields)}\n"
    body += f"def eqAttrs : List String := {_lean_strs(eq_attrs if eq_attrs is not None else fields)}\n"
    body += f"def probeHashIsFieldTupleHash : Bool := {_lean_bool(p_hash)}\n"
    body += f"def probeSameAddressSameSlot : Bool := {_lean_bool(p_same)}\n"
    body += f"def probeSameMidOtherFieldsDistinctSlots : Bool := {_lean_bool(p_distinct)}\n"
    body += f"def probeEqIsMidOnly : Bool := {_lean_bool(p_eq)}\n"
    body += "end Generated.GnAddrKey\n"
    write_if_changed("GnAddrKey.lean", body)


@gen_lean.register(props=["C08"])
def gen_locks_for_c08():
    """Generated/Locks.lean (lock sections, shared-attribute accesses and call sites of the router / location table,
    the ast pass of harness/gen_locks.py, registered there for C15/C16 only) is an input of C08 too:
    `FlexModel.Geo.LocTConc.srcLocked` reads from it whether every `LocationTable.new_*_packet` updates the LocTE inside
    the `loc_t_lock` section that creates it (Props.C08.new_packet_updates_inside_creation_section).  Re-run the
    generator so that a check of C08 sees the tree under test, not the facts of an earlier run."""
    import gen_locks
    gen_locks.gen_locks()

"""In-memory broadcast medium connecting real stations, with virtual timers (replaces threading.Timer in
flexstack.geonet.router) driven by the virtual clock.  Deterministic: FIFO delivery, timers fire in
(expiry, creation) order when the clock is advanced."""
from __future__ import annotations

import heapq
import itertools
import threading

import common  # noqa: F401
import realstack as rs
import flexstack.geonet.router as router_mod
from flexstack.linklayer.link_layer import LinkLayer


class VTimers:
    """scheduler of virtual timers bound to a realstack.VClock"""

    def __init__(self, clock):
        self.clock = clock
        self.heap = []
        self.seq = itertools.count()
        self.fired = 0

    def make_timer_class(self):
        sched = self

        class VTimer:
            def __init__(self, interval, function, args=None, kwargs=None):
                self.interval = interval
                self.function = function
                self.args = args if args is not None else []
                self.kwargs = kwargs if kwargs is not None else {}
                self.daemon = True
                self.cancelled = False
                self.started = False
                self.done = False

            def start(self):
                self.started = True
                due = sched.clock.ms + int(round(self.interval * 1000))
                heapq.heappush(sched.heap, (due, next(sched.seq), self))

            def cancel(self):
                self.cancelled = True

            def is_alive(self):
                return self.started and not self.done and not self.cancelled

        return VTimer

    def pending(self):
        return [(d, t) for d, _, t in sorted(self.heap) if not t.cancelled and not t.done]

    def advance(self, ms, after_each=None):
        """advance the clock by ms, firing due timers in order"""
        target = self.clock.ms + ms
        while self.heap and self.heap[0][0] <= target:
            due, _, t = heapq.heappop(self.heap)
            if t.cancelled:
                continue
            self.clock.ms = max(self.clock.ms, due)
            t.done = True
            self.fired += 1
            t.function(*t.args, **t.kwargs)
            if after_each:
                after_each()
        self.clock.ms = target

    def install(self):
        self._orig = router_mod.Timer
        router_mod.Timer = self.make_timer_class()
        return self

    def uninstall(self):
        router_mod.Timer = self._orig


class EtherLL(LinkLayer):
    def __init__(self, ether, name):
        super().__init__(lambda b: None)
        self.ether, self.name = ether, name
        self.sent = []

    def send(self, packet: bytes) -> None:
        self.sent.append(bytes(packet))
        self.ether.queue.append((self.name, bytes(packet)))

    def take(self):
        s, self.sent = self.sent, []
        return s


class Ether:
    """all attached stations hear each other unless `links` restricts it (set of frozenset({a,b}))"""

    def __init__(self, links=None, order_rng=None):
        self.stations = {}
        self.queue = []
        self.links = links
        # order_rng (a random.Random): asynchronous medium - every transmitted frame becomes one (receiver, frame)
        # pair per station in range and the pending pairs are delivered one at a time in an order drawn from
        # order_rng (any order: across receivers, across senders, between two frames of one sender).  None: FIFO.
        self.order_rng = order_rng
        self.pairs = []
        self.log = []      # (sender, frame) in transmission order
        self.max_frames = 10000
        self.down = set()   # stations temporarily out of range (neither hear nor are heard)

    def attach(self, name, stn):
        ll = EtherLL(self, name)
        stn.ll = ll
        stn.gn.link_layer = ll
        self.stations[name] = stn
        return ll

    def hears(self, a, b):
        if a in self.down or b in self.down:
            return False
        return a != b and (self.links is None or frozenset((a, b)) in self.links)

    def pump(self):
        """deliver queued frames FIFO until the medium is silent"""
        if self.order_rng is not None:
            return self.pump_async()
        n = 0
        while self.queue:
            sender, frame = self.queue.pop(0)
            self.log.append((sender, frame))
            n += 1
            if n > self.max_frames:
                raise RuntimeError("ether: flood does not terminate")
            for name, stn in self.stations.items():
                if self.hears(sender, name):
                    with rs.quiet():
                        stn.gn.gn_data_indicate(frame)
        return n

    def pump_async(self):
        """deliver the pending (receiver, frame) pairs in random order until the medium is silent"""
        n = 0
        while self.queue or self.pairs:
            while self.queue:
                sender, frame = self.queue.pop(0)
                self.log.append((sender, frame))
                for name in self.stations:
                    if self.hears(sender, name):
                        self.pairs.append((name, sender, frame))
            if not self.pairs:
                break
            name, _sender, frame = self.pairs.pop(self.order_rng.randrange(len(self.pairs)))
            n += 1
            if n > self.max_frames * max(1, len(self.stations)):
                raise RuntimeError("ether: flood does not terminate")
            with rs.quiet():
                self.stations[name].gn.gn_data_indicate(frame)
        return n

    def pump_lag(self, lag=()):
        """medium that is FIFO per receiver with LAGGING receivers (additive, C01 round 4): every transmitted frame
        becomes one (receiver, frame) pair per station in range; the oldest pending pair whose receiver is not in
        `lag` is delivered until only pairs for lagging receivers are left.  The stations in `lag` keep transmitting
        and are heard; they hear nothing until a later call without them.  Returns the number of deliveries."""
        n = 0
        while True:
            while self.queue:
                sender, frame = self.queue.pop(0)
                self.log.append((sender, frame))
                for name in self.stations:
                    if self.hears(sender, name):
                        self.pairs.append((name, sender, frame))
            k = next((i for i, p in enumerate(self.pairs) if p[0] not in lag), None)
            if k is None:
                return n
            name, _sender, frame = self.pairs.pop(k)
            n += 1
            if n > self.max_frames * max(1, len(self.stations)):
                raise RuntimeError("ether: flood does not terminate")
            with rs.quiet():
                self.stations[name].gn.gn_data_indicate(frame)
